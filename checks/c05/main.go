// C05 — replicated execution is deterministic: hashes depend only on the chain.
//
// Engine E4 (the real EVM application, no consensus). One generated block
// sequence S is executed under many process histories and configurations, each
// in real child processes on its own data directory:
//
//	H0   one process, continuous
//	Hk   stop after block k, new process for k+1..n (every k in thorough)
//	Hkk  several restarts
//	Wn   n signature-checking workers (1, 2, 8, 16)
//	R    race-detector build (reports inside chain/app/evm are violations)
//
// Oracle (hyperproperty): every observation of every block — valid/invalid
// split, AppHash, ReceiptsHash, and after the block the queried nonces,
// receipts, key-value entries and contract read-outs — is identical across all
// histories.
package main

import (
	"crypto/ecdsa"
	"encoding/hex"
	"encoding/json"
	"fmt"
	"io/ioutil"
	"os"
	"path/filepath"
	"strconv"
	"strings"
	"time"

	"github.com/dappledger/AnnChain/chain/app/evm"
	"github.com/dappledger/AnnChain/eth/common"

	"verif/evmdrive"
	"verif/lib"
)

const prop = "C05"

type seqFile struct {
	Blocks   [][]string `json:"blocks"`   // hex txs per block
	Accounts []string   `json:"accounts"` // key labels
	Counters []string   `json:"counters"` // contract addresses (hex) to read out
	Keys     []string   `json:"keys"`     // kv keys (hex)
	Kinds    [][]string `json:"kinds"`
}

type obs struct {
	Height  int64    `json:"h"`
	Valid   int      `json:"valid"`
	Invalid int      `json:"invalid"`
	InvIdx  []string `json:"invalid_txs"`
	App     string   `json:"app"`
	Rcpt    string   `json:"rcpt"`
	Nonces  []uint64 `json:"nonces"`
	Rcpts   []string `json:"receipts"`
	KVs     []string `json:"kvs"`
	Reads   []string `json:"reads"`
}

// ---- sequence generator --------------------------------------------------------

func genSeq(c int64) seqFile {
	rng := lib.Rand("c05-seq", c)
	labels := []string{"a", "b", "c", "d"}
	keys := map[string]*ecdsa.PrivateKey{}
	nonce := map[string]uint64{}
	for _, l := range labels {
		keys[l] = evmdrive.Key(fmt.Sprintf("c05-%d-%s", c, l))
	}
	var sf seqFile
	sf.Accounts = labels
	type contract struct {
		addr common.Address
		kind string
	}
	var contracts []contract
	kvKeys := [][]byte{}
	nb := 5 + rng.Intn(lib.Pick(8, 36))
	runtimes := map[string][]byte{"counter": evmdrive.CounterRuntime, "logger": evmdrive.LoggerRuntime, "store": evmdrive.StoreRuntime, "suicide": evmdrive.SuicideRuntime, "revert": evmdrive.RevertRuntime, "env": evmdrive.EnvRuntime, "probe": evmdrive.ProbeRuntime}
	rtNames := []string{"counter", "counter", "logger", "store", "suicide", "revert", "env", "env", "probe", "probe", "fuzz", "fuzz", "fuzz"}
	for b := 0; b < nb; b++ {
		var txs, kinds []string
		ntx := rng.Intn(9)
		if rng.Float64() < 0.12 {
			ntx = 0
		}
		for t := 0; t < ntx; t++ {
			l := labels[rng.Intn(len(labels))]
			k := keys[l]
			var tx []byte
			kind := ""
			switch x := rng.Float64(); {
			case x < 0.15 || len(contracts) == 0:
				name := rtNames[rng.Intn(len(rtNames))]
				code := runtimes[name]
				if name == "fuzz" {
					code = evmdrive.FuzzRuntime(rng.Intn)
				}
				tx = evmdrive.SignedTx(k, nonce[l], nil, 0, 3000000, 0, evmdrive.Deploy(code))
				contracts = append(contracts, contract{evmdrive.ContractAddr(evmdrive.Addr(k), nonce[l]), name})
				if name == "counter" {
					sf.Counters = append(sf.Counters, hex.EncodeToString(evmdrive.ContractAddr(evmdrive.Addr(k), nonce[l]).Bytes()))
				}
				nonce[l]++
				kind = "create-" + name
			case x < 0.50:
				ct := contracts[rng.Intn(len(contracts))]
				var data []byte
				switch ct.kind {
				case "logger":
					data = common.LeftPadBytes([]byte{byte(rng.Intn(256))}, 32)
				case "store":
					data = append(common.LeftPadBytes([]byte{byte(rng.Intn(4))}, 32), common.LeftPadBytes([]byte{byte(rng.Intn(256))}, 32)...)
				}
				tx = evmdrive.SignedTx(k, nonce[l], &ct.addr, 0, 3000000, 0, data)
				nonce[l]++
				kind = "call-" + ct.kind
			case x < 0.72:
				var key []byte
				if len(kvKeys) > 0 && rng.Float64() < 0.5 {
					key = kvKeys[rng.Intn(len(kvKeys))]
				} else {
					key = []byte(fmt.Sprintf("key-%d-%d", c, len(kvKeys)))
					kvKeys = append(kvKeys, key)
				}
				tx = evmdrive.KVTx(k, nonce[l], key, []byte(fmt.Sprintf("v%d", rng.Intn(1000))))
				nonce[l]++
				kind = "kv"
			case x < 0.78: // plain transfer of nothing
				to := evmdrive.Addr(keys[labels[rng.Intn(len(labels))]])
				tx = evmdrive.SignedTx(k, nonce[l], &to, 0, 21000, 0, nil)
				nonce[l]++
				kind = "transfer0"
			case x < 0.83: // value > balance: invalid
				to := evmdrive.Addr(keys[labels[rng.Intn(len(labels))]])
				gas := uint64(21000)
				kind = "inv-value"
				if rng.Intn(2) == 0 {
					// the same with a gas limit near the top of the range: whatever is bought for a transaction that
					// is turned away afterwards must not be missing for later transactions, blocks or process lifetimes
					gas = []uint64{^uint64(0), 1 << 63, 1<<63 - 1<<20, 1 << 62}[rng.Intn(4)]
					kind = "inv-value-huge-gas"
				}
				tx = evmdrive.SignedTx(k, nonce[l], &to, 5, gas, 0, nil)
			case x < 0.88: // stale nonce
				to := evmdrive.Addr(keys[labels[rng.Intn(len(labels))]])
				n := uint64(0)
				if nonce[l] > 0 {
					n = nonce[l] - 1
				} else {
					n = 7
				}
				tx = evmdrive.SignedTx(k, n, &to, 0, 21000, 0, nil)
				kind = "inv-nonce"
			case x < 0.92: // future nonce
				to := evmdrive.Addr(keys[labels[rng.Intn(len(labels))]])
				tx = evmdrive.SignedTx(k, nonce[l]+3, &to, 0, 21000, 0, nil)
				kind = "inv-future-nonce"
			case x < 0.96: // broken signature
				to := evmdrive.Addr(keys[labels[rng.Intn(len(labels))]])
				tx = evmdrive.SignedTx(k, nonce[l], &to, 0, 21000, 0, nil)
				tx[len(tx)-3] ^= 0x5a
				kind = "inv-signature"
			default: // malformed RLP
				tx = []byte{0xf8, 0x70, 0x01, 0x02, 0x03}
				kind = "inv-rlp"
			}
			txs = append(txs, hex.EncodeToString(tx))
			kinds = append(kinds, kind)
		}
		sf.Blocks = append(sf.Blocks, txs)
		sf.Kinds = append(sf.Kinds, kinds)
	}
	for _, k := range kvKeys {
		sf.Keys = append(sf.Keys, hex.EncodeToString(k))
	}
	return sf
}

// ---- child: executes blocks [from, to] on dir and appends observations ----------

func child(args []string) {
	dir, seqPath, outPath := args[0], args[1], args[4]
	from, _ := strconv.Atoi(args[2])
	to, _ := strconv.Atoi(args[3])
	workers, _ := strconv.Atoi(args[5])
	var sf seqFile
	b, _ := ioutil.ReadFile(seqPath)
	json.Unmarshal(b, &sf)
	if workers > 0 {
		evm.VerifSetValidateRoutines(workers)
	}
	app, err := evmdrive.Open(dir, 0)
	if err != nil {
		fmt.Println("open:", err)
		os.Exit(3)
	}
	out, _ := os.OpenFile(outPath, os.O_CREATE|os.O_WRONLY|os.O_APPEND, 0644)
	var accts []common.Address
	var akeys []*ecdsa.PrivateKey
	for _, l := range sf.Accounts {
		// the case number is part of the label: recover it from the sequence file name
		akeys = append(akeys, nil)
		_ = l
	}
	caseNo := strings.TrimSuffix(strings.TrimPrefix(filepath.Base(seqPath), "seq"), ".json")
	for i, l := range sf.Accounts {
		akeys[i] = evmdrive.Key(fmt.Sprintf("c05-%s-%s", caseNo, l))
		accts = append(accts, evmdrive.Addr(akeys[i]))
	}
	for h := from; h <= to; h++ {
		var txs [][]byte
		for _, hx := range sf.Blocks[h-1] {
			t, _ := hex.DecodeString(hx)
			txs = append(txs, t)
		}
		res, err := app.Exec(int64(h), txs)
		if err != nil {
			fmt.Fprintf(out, "{\"h\":%d,\"error\":%q}\n", h, err.Error())
			out.Close()
			os.Exit(4)
		}
		o := obs{Height: int64(h), Valid: len(res.Valid), Invalid: len(res.Invalid), App: hex.EncodeToString(res.AppHash), Rcpt: hex.EncodeToString(res.ReceiptsHash)}
		for _, t := range res.Invalid {
			o.InvIdx = append(o.InvIdx, lib.Hash12(hex.EncodeToString(t)))
		}
		for _, a := range accts {
			n, _ := app.Nonce(a)
			o.Nonces = append(o.Nonces, n)
		}
		for _, t := range txs {
			o.Rcpts = append(o.Rcpts, lib.Hash12(hex.EncodeToString(app.Receipt(t))))
		}
		for _, kx := range sf.Keys {
			k, _ := hex.DecodeString(kx)
			v, ok := app.KeyValue(k)
			o.KVs = append(o.KVs, fmt.Sprintf("%v:%s", ok, v))
		}
		for _, cx := range sf.Counters {
			a, _ := hex.DecodeString(cx)
			r, code := app.Call(akeys[0], common.BytesToAddress(a), []byte{1})
			o.Reads = append(o.Reads, fmt.Sprintf("%v:%x", code, r))
		}
		jb, _ := json.Marshal(o)
		out.Write(append(jb, '\n'))
	}
	out.Close()
	app.Close()
}

// ---- parent ------------------------------------------------------------------------

type history struct {
	name    string
	cuts    []int // process boundaries: blocks [1..cuts[0]], [cuts[0]+1..cuts[1]] ...
	workers int
	race    bool
}

func runHistory(run *lib.Run, base string, c int64, seqPath string, nb int, hi history) ([]obs, string) {
	dir := filepath.Join(base, fmt.Sprintf("c%d-%s", c, hi.name))
	os.MkdirAll(dir, 0755)
	defer os.RemoveAll(dir)
	outPath := filepath.Join(dir, "obs.jsonl")
	bin := os.Getenv("VERIF_SELF")
	env := []string{}
	racelog := ""
	if hi.race {
		bin = os.Getenv("VERIF_RACE_BIN")
		racelog = filepath.Join(dir, "race")
		env = append(env, "GORACE=halt_on_error=0 log_path="+racelog)
	}
	from := 1
	bounds := append(append([]int{}, hi.cuts...), nb)
	for _, to := range bounds {
		if to < from {
			continue
		}
		out, timedOut, err := lib.RunCmd(5*time.Minute, filepath.Join(dir, "child.log"), env, bin, "child", filepath.Join(dir, "data"), seqPath, strconv.Itoa(from), strconv.Itoa(to), outPath, strconv.Itoa(hi.workers))
		run.Count("child_processes", 1)
		if timedOut {
			run.Inconclusive(fmt.Sprintf("case %d history %s: watchdog", c, hi.name))
			return nil, ""
		}
		if err != nil && !(hi.race && strings.Contains(err.Error(), "exit status 66")) { // 66 = race detector found reports (judged from its log)
			return nil, fmt.Sprintf("child for blocks %d..%d died: %v: %s", from, to, err, tailStr(out, 1500))
		}
		from = to + 1
	}
	var res []obs
	b, _ := ioutil.ReadFile(outPath)
	for _, line := range strings.Split(strings.TrimSpace(string(b)), "\n") {
		var o obs
		if json.Unmarshal([]byte(line), &o) == nil {
			res = append(res, o)
		}
	}
	if hi.race {
		files, _ := filepath.Glob(racelog + ".*")
		for _, f := range files {
			rb, _ := ioutil.ReadFile(f)
			for _, blk := range strings.Split(string(rb), "==================") {
				if !strings.Contains(blk, "WARNING: DATA RACE") {
					continue
				}
				run.Count("race_reports", 1)
				if strings.Contains(blk, "chain/app/evm") {
					site := raceSite(blk)
					run.Violation("race-in-executor:"+site, fmt.Sprintf("case %d: data race in the block executor: %s", c, site), map[string]interface{}{"report": condense(blk)})
				}
			}
		}
	}
	return res, ""
}

func raceSite(blk string) string {
	var fns []string
	for _, l := range strings.Split(blk, "\n") {
		l = strings.TrimSpace(l)
		if strings.Contains(l, "chain/app/evm.") && !strings.HasPrefix(l, "/") {
			f := l
			if i := strings.Index(f, "chain/app/evm."); i >= 0 {
				f = f[i+len("chain/app/evm."):]
			}
			if i := strings.Index(f, "("); i > 0 {
				f = f[:i]
			}
			fns = append(fns, f)
			if len(fns) == 2 {
				break
			}
		}
	}
	return strings.Join(fns, "-vs-")
}

func tailStr(s string, n int) string {
	if len(s) > n {
		return s[len(s)-n:]
	}
	return s
}

func compare(a, b obs) string {
	switch {
	case a.Valid != b.Valid || a.Invalid != b.Invalid || strings.Join(a.InvIdx, ",") != strings.Join(b.InvIdx, ","):
		return "valid-invalid-split"
	case a.App != b.App:
		return "apphash"
	case a.Rcpt != b.Rcpt:
		return "receiptshash"
	case fmt.Sprint(a.Nonces) != fmt.Sprint(b.Nonces):
		return "nonce-query"
	case fmt.Sprint(a.Rcpts) != fmt.Sprint(b.Rcpts):
		return "receipt-query"
	case fmt.Sprint(a.KVs) != fmt.Sprint(b.KVs):
		return "kv-query"
	case fmt.Sprint(a.Reads) != fmt.Sprint(b.Reads):
		return "contract-read"
	}
	return ""
}

func runCase(run *lib.Run, c int64, base string) {
	sf := genSeq(c)
	nb := len(sf.Blocks)
	seqPath := filepath.Join(base, fmt.Sprintf("seq%d.json", c))
	jb, _ := json.Marshal(sf)
	ioutil.WriteFile(seqPath, jb, 0644)
	defer os.Remove(seqPath)
	rng := lib.Rand("c05-hist", c)
	hs := []history{{name: "H0"}}
	if lib.Thorough() {
		for k := 1; k < nb; k++ {
			hs = append(hs, history{name: fmt.Sprintf("H%d", k), cuts: []int{k}})
		}
	} else {
		seen := map[int]bool{}
		for i := 0; i < 4; i++ {
			k := 1 + rng.Intn(nb-1)
			if seen[k] {
				continue
			}
			seen[k] = true
			hs = append(hs, history{name: fmt.Sprintf("H%d", k), cuts: []int{k}})
		}
	}
	multi := []int{}
	for k := 1; k < nb; k++ {
		if rng.Float64() < 0.3 {
			multi = append(multi, k)
		}
	}
	hs = append(hs, history{name: "Hmulti", cuts: multi})
	for _, w := range []int{1, 2, 16} {
		hs = append(hs, history{name: fmt.Sprintf("W%d", w), workers: w})
	}
	if c%int64(lib.Pick(4, 2)) == 0 && os.Getenv("VERIF_RACE_BIN") != "" {
		hs = append(hs, history{name: "R", race: true, workers: 8, cuts: []int{nb / 2}})
	}
	run.Eval()
	var ref []obs
	kinds := map[string]int{}
	for _, ks := range sf.Kinds {
		for _, k := range ks {
			kinds[k]++
			run.Count("tx_"+k, 1)
		}
	}
	results := make([][]obs, len(hs))
	errs := make([]string, len(hs))
	lib.Parallel(len(hs), 4, func(i int) {
		results[i], errs[i] = runHistory(run, base, c, seqPath, nb, hs[i])
	})
	for i, hi := range hs {
		run.Count("histories", 1)
		if errs[i] != "" {
			run.Violation("executor-process-died", fmt.Sprintf("case %d history %s: %s", c, hi.name, errs[i]), map[string]interface{}{"sequence": sf, "history": hi.name})
			return
		}
		if results[i] == nil {
			return
		}
		if i == 0 {
			ref = results[0]
			if len(ref) != nb {
				run.Inconclusive(fmt.Sprintf("case %d: reference history has %d of %d blocks", c, len(ref), nb))
				return
			}
			continue
		}
		if len(results[i]) != nb {
			run.Violation("history-incomplete", fmt.Sprintf("case %d history %s executed %d of %d blocks", c, hi.name, len(results[i]), nb), nil)
			return
		}
		for h := 0; h < nb; h++ {
			run.Count("block_observations_compared", 1)
			if d := compare(ref[h], results[i][h]); d != "" {
				cls := "restart"
				if hi.workers > 0 {
					cls = "workers"
				}
				if hi.race {
					cls = "race-build"
				}
				run.Violation(d+"-differs-across:"+cls, fmt.Sprintf("case %d block %d: %s under history %s (process boundaries after %v, workers %d) differs from the continuous run", c, h+1, d, hi.name, hi.cuts, hi.workers),
					map[string]interface{}{"sequence_kinds": sf.Kinds, "history": hi, "block": h + 1, "continuous": ref[h], "this_history": results[i][h]})
				break
			}
		}
		run.Nontrivial(fmt.Sprintf("%d/%s", c, hi.name))
	}
	if c < 2 {
		run.Sample(map[string]interface{}{"case": c, "blocks": nb, "tx_kinds": kinds, "histories": len(hs), "first_block_observation": ref[0]})
	}
}

func main() {
	if len(os.Args) > 1 && os.Args[1] == "child" {
		child(os.Args[2:])
		return
	}
	evmdrive.Quiet()
	run := lib.NewRun(prop, "exploration")
	run.SetRule("seeded block sequences (5-12 blocks quick, 5-40 thorough; contract creations and calls of counter/logger/store/selfdestruct/revert contracts of random byte strings deployed as code (invalid opcodes, underflows, PUSH data running past the end of the code), of a probe contract that stores the results of two dozen arithmetic / bit operations on constants, and of one that writes the block environment (BLOCKHASH of the four previous blocks, NUMBER, TIMESTAMP, COINBASE, DIFFICULTY, GASLIMIT) into storage, key-value txs incl. overwrites and repeats in a block, zero-value transfers, invalid txs: value > balance, stale and future nonce, broken signature, malformed RLP; empty blocks), each executed by the real EVM application in child processes under: one continuous process; a process boundary after block k (4 sampled k quick, every k thorough); several boundaries; 1/2/16 signature workers; a race-detector build. Non-trivial = distinct (sequence, history) pair compared block by block with the continuous run.")
	run.Assume("restart = clean process exit between blocks (crashes inside a commit are C06)", "different CPUs/OS/library versions are out of reach", "inputs that crash the executor (empty tx, short governance payload) belong to C09 and are not generated here")
	base := lib.Scratch(prop)
	defer os.RemoveAll(base)
	n := lib.Pick(12, 200)
	lib.Parallel(n, 4, func(i int) { runCase(run, int64(i), base) })
	run.Require("block_observations_compared", 300)
	run.Require("tx_kv", 20)
	run.Require("tx_create-counter", 5)
	run.Require("tx_call-env", 3)
	run.Require("tx_call-probe", 3)
	run.Require("tx_call-fuzz", 3)
	os.Exit(run.Finish())
}

func headStr(s string, n int) string {
	if len(s) > n {
		return s[:n]
	}
	return s
}

// condense keeps the structural lines of a race report and frames inside the repository.
func condense(blk string) string {
	var out []string
	lines := strings.Split(blk, "\n")
	for i, l := range lines {
		t := strings.TrimSpace(l)
		if strings.HasPrefix(t, "WARNING") || strings.HasPrefix(t, "Write") || strings.HasPrefix(t, "Read") || strings.HasPrefix(t, "Previous") || strings.HasPrefix(t, "Goroutine") {
			out = append(out, t)
		} else if strings.Contains(t, "/repo/") || strings.Contains(t, "/verif/") {
			if i > 0 {
				out = append(out, "  "+strings.TrimSpace(lines[i-1])+"  "+t)
			}
		}
	}
	if len(out) > 60 {
		out = out[:60]
	}
	return strings.Join(out, "\n")
}
