// C07 — WAL replay restores the in-progress height after a crash.
//
// Engine E1. One node X of a network of real ConsensusStates is "crashed" after
// processed inputs of the heights of interest: its on-disk artefacts as of that
// moment (WAL group files, block store, state, signer file) are copied, a fresh
// ConsensusState is built on the copy and started through the real start-up
// path (WAL marker check + catchupReplay). Oracle:
//
//		(a) no panic, no start-up error
//		(b) RoundState digest after replay == digest of the live node at the crash
//		    point (height, round, step, lock, proposal, parts bit-array, every
//		    round's vote bit-arrays and majorities, last-commit bit-array)
//		(c) real crash/restart events in the run: X never emits a vote/proposal
//		    contradicting one it emitted before; all nodes commit the same blocks
//		(e) intra-step: a crash right after the commit-completing input was logged and before any of its
//	     effects were written must be recovered by WAL replay, and a second crash in the following
//	     height must again restore the round state
//	 (d) byte cuts: the WAL head truncated at every byte offset of its last
//		    record -> no panic, digest == digest after the last complete record.
package main

import (
	"bytes"
	"fmt"
	"io/ioutil"
	"os"
	"path/filepath"
	"runtime"
	"runtime/debug"
	"runtime/pprof"
	"strconv"
	"strings"
	"time"

	sm "github.com/dappledger/AnnChain/gemmill/state"

	"verif/lib"
	"verif/sim"
)

const prop = "C07"

type stepRec struct {
	digest   string
	walSize  int64 // size of the WAL head after this step
	h, r     int64
	step     uint8
	proposer string
}

type mon struct {
	run        *lib.Run
	c          int64
	net        *sim.Net
	X          int
	base       string
	failed     bool
	prev       stepRec
	have       bool
	emit       map[string]string // X's emissions: "H/R/kind" -> block
	seenEm     int
	byH        map[int64][]byte
	rate       float64
	cuts       int
	pre        *preSnap
	cutsMarker int
	nclone     int
	rngv       func() float64
}

// preSnap is X's disk immediately before it processes an input.
type preSnap struct {
	state, block *sim.DiskDB
	signer       []byte
	walSize      int64
	storeHeight  int64
}

func (m *mon) onBefore(n *sim.Net, i int) {
	if i != m.X || m.failed {
		return
	}
	nd := n.Nodes[i]
	if !nd.Up {
		return
	}
	m.pre = nil
	rs := nd.CS.VerifRoundState()
	// only where a commit can happen next (cheap filter): a precommit majority is near
	if rs.Step < 6 && rs.Step != 8 {
		return
	}
	sb, err := ioutil.ReadFile(nd.SignFile)
	if err != nil {
		return
	}
	m.pre = &preSnap{state: nd.StateDB.(*sim.DiskDB).Clone(), block: nd.BlockDB.(*sim.DiskDB).Clone(), signer: sb, walSize: headSize(nd), storeHeight: nd.Store.Height()}
}

// intraStep: the process died right after the input of this step was logged, before any of its
// effects (block store, state, signer) were written; the step committed a block when it ran live.
// The restarted node commits that block through WAL replay. Then a second crash in the next height.
func (m *mon) intraStep(nd *sim.Node, cur stepRec) {
	pre := m.pre
	m.pre = nil
	if pre == nil || nd.Store.Height() <= pre.storeHeight || pre.walSize < 0 {
		return
	}
	data, err := ioutil.ReadFile(filepath.Join(nd.WALDir, "wal"))
	if err != nil || int64(len(data)) <= pre.walSize {
		return // the head was rotated during the step: not attributable
	}
	nl := bytes.IndexByte(data[pre.walSize:], '\n')
	if nl < 0 {
		return
	}
	cut := pre.walSize + int64(nl) + 1
	dir := filepath.Join(m.base, fmt.Sprintf("intra-%d-%d", m.c, m.nclone))
	m.nclone++
	os.MkdirAll(dir, 0755)
	defer lib.RemoveLater(dir)
	cl, err := m.net.Snapshot(m.X, dir)
	if err != nil {
		return
	}
	cl.StateDB, cl.BlockDB = pre.state, pre.block
	ioutil.WriteFile(cl.SignFile, pre.signer, 0600)
	os.Truncate(filepath.Join(cl.WALDir, "wal"), cut)
	// the application is one height behind as well (its record of the committed block is part of the step)
	if len(cl.App.History) > 0 && cl.App.Height > pre.storeHeight {
		cl.App.History = cl.App.History[:len(cl.App.History)-1]
		cl.App.Height = pre.storeHeight
		cl.App.AppHash, cl.App.ReceiptsHash = []byte{}, nil
		if k := len(cl.App.History); k > 0 {
			cl.App.AppHash, cl.App.ReceiptsHash = cl.App.History[k-1].AppHash, cl.App.History[k-1].ReceiptsHash
		}
	}
	ok := m.bootGuard(cl, "crash right after the commit-completing input was logged")
	if !ok {
		return
	}
	defer m.net.CloseDetached(cl)
	m.run.Count("intra_step_crash_points", 1)
	got := sim.Digest(cl.CS)
	if got != cur.digest {
		m.viol("intra-step-replay-digest-differs", fmt.Sprintf("crash between logging and handling the input that committed height %d: digest after WAL replay differs from the live node after that input", pre.storeHeight+1), map[string]interface{}{"live": cur.digest, "replayed": got})
		return
	}
	m.run.Count("intra_step_digest_equal", 1)
	// second crash inside the next height: let the restarted node work a little, then restart it again
	for k := 0; k < len(cl.Timeouts); k++ {
		if cl.Timeouts[k].Height == cl.CS.VerifRoundState().Height {
			cl.CS.VerifStepTimeout(cl.Timeouts[k])
			break
		}
	}
	for i := 0; i < 6; i++ {
		if _, more := cl.CS.VerifStepInternal(); !more {
			break
		}
	}
	want := sim.Digest(cl.CS)
	dir2 := filepath.Join(m.base, fmt.Sprintf("intra2-%d-%d", m.c, m.nclone))
	m.nclone++
	os.MkdirAll(dir2, 0755)
	defer lib.RemoveLater(dir2)
	cl2, err := m.net.SnapshotNode(cl, dir2)
	if err != nil {
		return
	}
	if !m.bootGuard(cl2, "second crash, inside the height after a block committed through WAL replay") {
		return
	}
	defer m.net.CloseDetached(cl2)
	m.run.Count("chained_crash_points", 1)
	if got2 := sim.Digest(cl2.CS); got2 != want {
		m.viol("chained-crash-replay-digest-differs", fmt.Sprintf("height %d was committed through WAL replay, the node then worked on height %d and was restarted again: the second replay does not restore its round state", pre.storeHeight+1, pre.storeHeight+2), map[string]interface{}{"before_second_crash": want, "after_second_replay": got2})
	}
}

// bootGuard boots a detached node, turning panics and start errors into violations.
func (m *mon) bootGuard(nd *sim.Node, tag string) bool {
	var bootErr error
	func() {
		defer func() {
			if r := recover(); r != nil {
				m.viol("replay-panic:"+panicSite(string(debug.Stack())), fmt.Sprintf("%s: WAL replay panicked: %v", tag, r), map[string]interface{}{"panic": fmt.Sprint(r), "stack": string(debug.Stack())})
				bootErr = fmt.Errorf("panic")
			}
		}()
		bootErr = m.net.BootDetached(nd)
	}()
	if bootErr != nil {
		if !m.failed {
			m.viol("restart-error", fmt.Sprintf("%s: start-up from the WAL failed: %v", tag, bootErr), nil)
		}
		return false
	}
	return true
}

func (m *mon) viol(key, what string, extra map[string]interface{}) {
	if m.failed {
		return
	}
	m.failed = true
	tr := m.net.Trace
	if len(tr) > 300 {
		tr = tr[len(tr)-300:]
	}
	w := map[string]interface{}{"case": m.c, "seed": lib.Seed(), "X": m.X, "powers": m.net.Cfg.Powers, "trace_tail": tr}
	for k, v := range extra {
		w[k] = v
	}
	m.run.ChildViolation(key, fmt.Sprintf("case %d: %s", m.c, what), w)
}

func headSize(nd *sim.Node) int64 {
	fi, err := os.Stat(filepath.Join(nd.WALDir, "wal"))
	if err != nil {
		return -1
	}
	return fi.Size()
}

// replay builds a node from X's current disk and returns its digest.
func (m *mon) replay(tag string, cutTo int64) (digest string, proposer string, ok bool) {
	dir := filepath.Join(m.base, fmt.Sprintf("clone-%d-%d", m.c, m.nclone))
	m.nclone++
	os.MkdirAll(dir, 0755)
	defer lib.RemoveLater(dir)
	nd, err := m.net.Snapshot(m.X, dir)
	if err != nil {
		m.run.Inconclusive("snapshot failed: " + err.Error())
		return "", "", false
	}
	if cutTo >= 0 {
		if err := os.Truncate(filepath.Join(nd.WALDir, "wal"), cutTo); err != nil {
			m.run.Inconclusive("truncate failed: " + err.Error())
			return "", "", false
		}
	}
	// proposer the freshly loaded state names (S8 precondition, evaluated before looking at digests)
	if st := sm.LoadState(nd.StateDB); st != nil && st.Validators.Size() > 0 {
		proposer = fmt.Sprintf("%X", st.Validators.Proposer().Address)
	}
	var bootErr error
	func() {
		defer func() {
			if r := recover(); r != nil {
				site := panicSite(string(debug.Stack()))
				m.viol("replay-panic:"+site, fmt.Sprintf("%s: WAL replay panicked: %v", tag, r), map[string]interface{}{"panic": fmt.Sprint(r), "stack": string(debug.Stack()), "cut_to": cutTo})
				bootErr = fmt.Errorf("panic")
			}
		}()
		bootErr = m.net.BootDetached(nd)
	}()
	if bootErr != nil {
		if !m.failed {
			m.viol("restart-error", fmt.Sprintf("%s: start-up from the WAL failed: %v", tag, bootErr), map[string]interface{}{"cut_to": cutTo})
		}
		return "", proposer, false
	}
	defer m.net.CloseDetached(nd)
	if len(nd.ReplayErrs) > 0 {
		if cutTo < 0 {
			m.run.Count("replay_errors_on_uncut_wal", 1)
			m.run.Distinct("replay_error_texts_uncut", nd.ReplayErrs[0])
		} else {
			m.run.Count("replay_errors_on_cut_wal", 1)
		}
	}
	return sim.Digest(nd.CS), proposer, true
}

func panicSite(stack string) string {
	for _, l := range strings.Split(stack, "\n") {
		if strings.Contains(l, "AnnChain/") && !strings.Contains(l, "PanicSanity") && !strings.Contains(l, "PanicCrisis") && !strings.Contains(l, "verif_shim") {
			l = strings.TrimSpace(l)
			if i := strings.Index(l, "("); i > 0 {
				l = l[:i]
			}
			if j := strings.LastIndex(l, "AnnChain/"); j >= 0 {
				l = l[j+len("AnnChain/"):]
			}
			return l
		}
	}
	return "unknown"
}

func (m *mon) onStep(n *sim.Net, i int) {
	if m.failed {
		return
	}
	// agreement across nodes (part of (c))
	nd := n.Nodes[i]
	if nd.Up {
		for h := int64(len(nd.Shown)) + 1; h <= nd.Store.Height(); h++ {
			b := nd.Store.LoadBlock(h)
			if b == nil {
				break
			}
			nd.Shown[h] = sim.Commit{Height: h, Hash: b.Hash()}
			if first, ok := m.byH[h]; ok && !bytes.Equal(first, b.Hash()) {
				m.viol("fork-after-replay", fmt.Sprintf("height %d committed differently by node %d", h, i), nil)
				return
			} else if !ok {
				m.byH[h] = b.Hash()
			}
		}
	}
	if i != m.X || !nd.Up {
		return
	}
	// (c) X's emissions never contradict earlier ones
	for ; m.seenEm < len(nd.Emitted); m.seenEm++ {
		e := nd.Emitted[m.seenEm]
		if e.Kind == "part" {
			continue
		}
		k := fmt.Sprintf("%d/%d/%s", e.H, e.R, e.Kind)
		if old, ok := m.emit[k]; ok && old != e.Block {
			m.viol("emission-contradicts-earlier-one", fmt.Sprintf("X emitted %s for %.8s and for %.8s (restarts so far: %d)", k, old, e.Block, nd.Restarts), nil)
			return
		}
		m.emit[k] = e.Block
	}
	rs := nd.CS.VerifRoundState()
	cur := stepRec{digest: sim.Digest(nd.CS), walSize: headSize(nd), h: rs.Height, r: rs.Round, step: uint8(rs.Step)}
	if rs.Validators != nil && rs.Validators.Size() > 0 {
		cur.proposer = fmt.Sprintf("%X", rs.Validators.Proposer().Address)
	}
	m.run.Distinct("live_digests", cur.digest)
	defer func() { m.prev, m.have = cur, true }()
	if m.pre != nil {
		m.intraStep(nd, cur)
		if m.failed {
			return
		}
	}
	if m.have && cur.h != m.prev.h && m.cutsMarker > 0 {
		// the step that moved X to a new height wrote the "#HEIGHT" marker: cut into it
		m.byteCuts(nd, cur, true)
		if m.failed {
			return
		}
	}
	if m.rngv() > m.rate {
		return
	}
	// ---- crash point after this input ----
	m.run.Count("crash_points", 1)
	got, loadedProposer, ok := m.replay("crash after processed input", -1)
	if !ok || m.failed {
		return
	}
	m.run.Count("replays", 1)
	mismatchPre := cur.r == 0 && cur.h >= 2 && loadedProposer != cur.proposer
	if rs.LockedBlock != nil {
		m.run.Count("crash_points_with_lock", 1)
	}
	if cur.r > 0 {
		m.run.Count("crash_points_in_round>0", 1)
	}
	if got == cur.digest {
		m.run.Count("digest_equal", 1)
		if rs.LockedBlock != nil {
			m.run.Count("replays_that_restored_a_lock", 1)
		}
		if !mismatchPre {
			m.run.Count("judged_by_full_digest", 1)
		}
		m.run.Nontrivial(lib.Hash12(cur.digest))
	} else if mismatchPre {
		m.run.Count("digest_differs_under_proposer_mismatch", 1)
		m.viol("replay-differs:reloaded-state-names-other-proposer", fmt.Sprintf("crash in round 0 of height %d: the freshly loaded validator set names proposer %.8s, the live node %.8s; the replayed node rejects the logged proposal", cur.h, loadedProposer, cur.proposer), nil)
		m.failed = false // recorded class; keep exploring this run
	} else {
		m.run.Count("judged_by_full_digest", 1)
		m.viol("replay-digest-differs", fmt.Sprintf("crash after an input at %d/%d/step %d: digest after WAL replay differs from the live node", cur.h, cur.r, cur.step),
			map[string]interface{}{"live": cur.digest, "replayed": got})
		return
	}
	if m.cuts > 0 {
		m.byteCuts(nd, cur, false)
	}
}

// byteCuts: (d) the WAL head cut at byte offsets of its last record.
func (m *mon) byteCuts(nd *sim.Node, cur stepRec, marker bool) {
	if m.have && cur.walSize > 0 && m.prev.walSize >= 0 {
		data, err := ioutil.ReadFile(filepath.Join(nd.WALDir, "wal"))
		if err != nil || int64(len(data)) != cur.walSize || len(data) < 2 {
			return
		}
		// start of the last line
		end := len(data)
		ls := bytes.LastIndexByte(data[:end-1], '\n') + 1
		// when the record before the last is a "#HEIGHT: n" marker, cut into the marker as well
		if ls >= 2 {
			if ps := bytes.LastIndexByte(data[:ls-1], '\n') + 1; data[ps] == '#' {
				ls = ps
			}
		}
		if int64(ls) < m.prev.walSize && m.prev.walSize <= cur.walSize && m.prev.walSize > 0 {
			// the last line started before this step's input line: cannot attribute, skip
		}
		// reference: WAL without the last line at all
		ref, refProp, ok := m.replay("WAL cut at the start of its last record", int64(ls))
		if !ok || m.failed {
			return
		}
		_ = refProp
		if marker {
			m.cutsMarker--
		} else {
			m.cuts--
		}
		kind := "json"
		if data[ls] == '#' {
			kind = "height-marker"
		}
		m.run.Count("byte_cut_records_"+kind, 1)
		offs := []int{}
		n := end - ls
		limit := lib.Pick(48, 400)
		if n <= limit {
			for o := ls + 1; o < end; o++ {
				offs = append(offs, o)
			}
		} else {
			for k := 0; k < limit; k++ {
				offs = append(offs, ls+1+int(m.rngv()*float64(n-1)))
			}
			offs = append(offs, ls+1, end-1, end-2)
		}
		for _, o := range offs {
			got, _, ok := m.replay(fmt.Sprintf("WAL cut at byte %d of %d (last record starts at %d, %s)", o, end, ls, kind), int64(o))
			if !ok || m.failed {
				return
			}
			m.run.Count("byte_cuts", 1)
			if got != ref {
				m.viol("torn-record-changes-replay:"+kind, fmt.Sprintf("WAL cut at byte %d (last record %d..%d, %s): digest differs from the digest after the last complete record", o, ls, end, kind),
					map[string]interface{}{"cut": o, "line_start": ls, "size": end, "after_last_complete_record": ref, "got": got})
				return
			}
		}
	}
}

func runCase(run *lib.Run, c int64, base string) {
	rng := lib.Rand("c07", c)
	n := []int{3, 4, 4, 4, 5}[rng.Intn(5)]
	powers := make([]int64, n)
	for i := range powers {
		if c%3 == 0 {
			powers[i] = 1
		} else {
			powers[i] = int64(1 + rng.Intn(4))
		}
	}
	var total int64
	for _, p := range powers {
		total += p
	}
	real := make([]bool, n)
	for i := range real {
		real[i] = true
	}
	var byz []int
	if rng.Float64() < 0.5 {
		for _, i := range rng.Perm(n) {
			if powers[i]*3 < total {
				byz = []int{i}
				real[i] = false
				break
			}
		}
	}
	var reals []int
	for i, r := range real {
		if r {
			reals = append(reals, i)
		}
	}
	X := reals[rng.Intn(len(reals))]
	dir := filepath.Join(base, fmt.Sprintf("c%d", c))
	os.MkdirAll(dir, 0755)
	defer lib.RemoveLater(dir)
	run.Eval()
	cfg := sim.Config{Powers: powers, Real: real, Dir: dir, Label: "c07"}
	switch c % 4 {
	case 2:
		// the product's default part size with blocks of about 60 KB: one part, WAL records of > 100 KB
		cfg.PartSize, cfg.TxBytes = 65536, 30000
		run.Count("cases_with_large_single_part_blocks", 1)
	case 3:
		// blocks of several 4 KiB parts
		cfg.PartSize, cfg.TxBytes = 4096, 5000
		run.Count("cases_with_multi_part_blocks", 1)
	}
	net, err := sim.NewNet(cfg)
	if err != nil {
		run.Inconclusive(fmt.Sprintf("case %d: %v", c, err))
		return
	}
	net.KeepTrace = true
	m := &mon{run: run, c: c, net: net, X: X, base: dir, emit: map[string]string{}, byH: map[int64][]byte{}, rngv: lib.Rand("c07-sample", c).Float64}
	m.rate = []float64{0.1, 0.2, 0.5}[rng.Intn(3)]
	if lib.Thorough() {
		m.rate = 1.0
	}
	m.cuts = lib.Pick(1, 6)
	m.cutsMarker = 1
	if c%4 != 0 {
		m.cuts, m.cutsMarker = 0, 0
	}
	defer func() {
		if r := recover(); r != nil {
			run.Count("runs_aborted_by_panic", 1)
			run.Distinct("panic_sites", fmt.Sprint(r))
			lib.WriteObservation(prop, fmt.Sprintf("panic-case%d", c), map[string]interface{}{"panic": fmt.Sprint(r), "stack": string(debug.Stack()), "case": c})
		}
		func() { defer func() { recover() }(); net.Close() }()
	}()
	net.OnStep = m.onStep
	net.OnBefore = m.onBefore
	adv := sim.NewAdversary(net, rng, byz)
	adv.PClaim = 0 // majority claims are not WAL-logged inputs (reactor state), see assumptions
	switch rng.Intn(4) {
	case 0:
		adv.PTimeout = 0.15
	case 1:
		adv.PPart, adv.PTimeout = 0.01, 0.08
	case 2:
		adv.PByz, adv.PTimeout = 0.1, 0.1
	}
	adv.PCrash, adv.PRestart, adv.MaxCrashes = 0.006, 0.1, 4
	rotate := c%3 == 1
	target := int64(lib.Pick(3, 4))
	for s := 0; s < lib.Pick(1000, 3000) && !m.failed; s++ {
		if rotate && s%97 == 60 && net.Nodes[X].Up {
			// as the group's own size check does it: only a head file that exists and holds something
			// is rotated (after a rotation the head is re-created by the next write)
			g := net.Nodes[X].CS.VerifWALGroup()
			if fi, err := os.Stat(g.Head.Path); err == nil && fi.Size() > 0 {
				g.RotateFile()
				run.Count("wal_rotations", 1)
			}
		}
		if !adv.Step() {
			break
		}
		done := true
		for _, i := range reals {
			if !net.Nodes[i].Up || net.Nodes[i].Store.Height() < target {
				done = false
			}
		}
		if done {
			break
		}
	}
	if !m.failed {
		adv.FairSuffix(target, 6000)
	}
	run.Count("restarts_of_X", int64(net.Nodes[X].Restarts))
	run.Count("steps", int64(net.Steps))
	run.Distinct("schedules", lib.Hash12(net.Trace))
	if c < 2 {
		tr := net.Trace
		if len(tr) > 20 {
			tr = tr[:20]
		}
		run.Sample(map[string]interface{}{"case": c, "powers": powers, "X": X, "byz": byz, "sample_rate": m.rate, "first_actions": tr})
	}
}

func worker(args []string) {
	i, _ := strconv.Atoi(args[0])
	wn, _ := strconv.Atoi(args[1])
	out := args[2]
	run := lib.NewChildRun(prop)
	base := lib.Scratch(prop)
	defer os.RemoveAll(base)
	// 16 workers share the machine: without a limit the snapshots of a long case let a worker's
	// heap grow to several GiB before the collector returns anything
	debug.SetMemoryLimit(2 << 30)
	// args[3], args[4]: this process handles cases first+i, first+i+wn, ... below first+count. Every
	// replay leaves two parked goroutines with a 40 KiB buffer behind (go-autofile's tick routines
	// do not end when their tickers are stopped), thousands per case: processes are kept short-lived.
	first, _ := strconv.ParseInt(args[3], 10, 64)
	count, _ := strconv.ParseInt(args[4], 10, 64)
	for c := first + int64(i); c < first+count; c += int64(wn) {
		runCase(run, c, base)
		debug.FreeOSMemory()
		if os.Getenv("VERIF_MEMLOG") != "" {
			var ms runtime.MemStats
			runtime.ReadMemStats(&ms)
			fmt.Fprintf(os.Stderr, "MEMLOG case %d heap_inuse=%dMB heap_objects=%d goroutines=%d\n", c, ms.HeapInuse>>20, ms.HeapObjects, runtime.NumGoroutine())
			if f, err := os.Create(os.Getenv("VERIF_MEMLOG")); err == nil {
				pprof.Lookup("goroutine").WriteTo(f, 1)
				f.Close()
			}
		}
	}
	run.MarkComplete()
	if err := run.ExportTo(out); err != nil {
		fmt.Println("export failed:", err)
		os.Exit(1)
	}
}

func main() {
	if len(os.Args) > 1 && os.Args[1] == "worker" {
		worker(os.Args[2:])
		return
	}
	run := lib.NewRun(prop, "fault_enumeration")
	run.SetRule("seeded executions of 3-5 real ConsensusStates (optionally one Byzantine validator) under adversarial schedules with premature timeouts, partitions, WAL rotation inside heights and real crash/restart of nodes; node X is additionally 'crashed' after its processed inputs (quick: sampled 25-100%; thorough: every input): disk artefacts copied, fresh node started through the real replay path, RoundState digest compared; for selected records the WAL head is cut at every byte offset (sampled above 48/400 bytes) of its last record. Non-trivial = distinct live RoundState digest that a replay reproduced.")
	run.Assume("crash = process death after a completely processed input (torn writes are covered by the byte cuts of the WAL head only)", "the digest excludes the internal queue: replay legitimately re-queues identical re-signed own votes; contradictions are caught by the emission ledger instead", "peer majority claims (VoteSetMaj23) are reactor state, not WAL-logged inputs: not generated here", "cs_wal_light=false (default)")
	total := int64(lib.Pick(48, 96))
	per := int64(lib.Pick(48, 32)) // cases per round of 16 worker processes (thorough: two big cases each)
	for first := int64(0); first < total; first += per {
		n := per
		if first+n > total {
			n = total - first
		}
		run.RunWorkers(16, time.Duration(lib.Pick(20, 30))*time.Minute, []string{strconv.FormatInt(first, 10), strconv.FormatInt(n, 10)}, nil)
	}
	run.Require("replays", 1000)
	run.Require("judged_by_full_digest", 300)
	run.Require("replays_that_restored_a_lock", 20)
	run.Require("crash_points_in_round>0", 100)
	run.Require("byte_cuts", 200)
	run.Require("intra_step_crash_points", 20)
	run.Require("chained_crash_points", 20)
	if n := run.Get("runs_aborted_by_panic"); n > 0 {
		// a case that ended in a panic of the code under test was not judged: never a silent pass
		// (what a peer can make a node panic with is C08's subject; the sites are in the evidence)
		run.Inconclusive(fmt.Sprintf("%d cases were aborted by a panic of the code under test and could not be judged (distinct sites: evidence, set panic_sites)", n))
	}
	os.Exit(run.Finish())
}
