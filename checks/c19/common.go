package main

// Shared pieces: transaction identities, trace lines, counters of the real pool.

import (
	"crypto/ecdsa"
	"encoding/binary"
	"fmt"
	"os"
	"sort"
	"strings"

	"github.com/dappledger/AnnChain/chain/app/evm"
	"github.com/dappledger/AnnChain/eth/common"
	gtypes "github.com/dappledger/AnnChain/gemmill/types"

	"verif/evmdrive"
	"verif/lib"
)

const prop = "C19"

var toAddr = common.HexToAddress("0x00000000000000000000000000000000000c0190")

const (
	kNormal  = "normal"
	kInvalid = "invalid" // value 1 from an account without balance: fails at execution
	kAdmin   = "admin"
)

// txInfo is one transaction identity (account, nonce, salt): the salt is part of
// the signed payload, so the bytes a Reap returns name the submission.
type txInfo struct {
	ID    int
	Acct  int // index into the history's accounts; -1 for admin-tagged txs
	Nonce uint64
	Salt  uint32
	Kind  string
	Bytes []byte
}

func (t *txInfo) String() string {
	if t.Kind == kAdmin {
		return fmt.Sprintf("adm#%d", t.Salt)
	}
	s := fmt.Sprintf("%c:%d#%d", 'a'+t.Acct, t.Nonce, t.Salt)
	if t.Kind == kInvalid {
		s += "!"
	}
	return s
}

type account struct {
	label string
	key   *ecdsa.PrivateKey
	addr  common.Address
	nonce uint64 // the account's current (state) nonce, read from the application after every commit
}

func newAccount(label string) *account {
	k := evmdrive.Key(label)
	return &account{label: label, key: k, addr: evmdrive.Addr(k)}
}

func buildTx(a *account, acct int, nonce uint64, salt uint32, kind string, scope uint64) []byte {
	data := make([]byte, 12)
	binary.BigEndian.PutUint64(data, scope)
	binary.BigEndian.PutUint32(data[8:], salt)
	value := int64(0)
	if kind == kInvalid {
		value = 1
	}
	return evmdrive.SignedTx(a.key, nonce, &toAddr, value, 100000, 0, data)
}

func buildAdmin(salt uint32, scope uint64) []byte {
	data := make([]byte, 12)
	binary.BigEndian.PutUint64(data, scope)
	binary.BigEndian.PutUint32(data[8:], salt)
	return gtypes.WrapTx(append([]byte{}, gtypes.AdminTag...), data)
}

func idsString(txs []*txInfo, ids []int) string {
	parts := make([]string, len(ids))
	for i, id := range ids {
		if id < 0 {
			parts[i] = "?"
		} else {
			parts[i] = txs[id].String()
		}
	}
	return "[" + strings.Join(parts, " ") + "]"
}

func countsString(c evm.VerifPoolCounts, size int) string {
	return fmt.Sprintf("pending=%d waiting=%d all=%d ext=%d bcast=%d Size()=%d", c.Pending, c.Waiting, c.All, c.Ext, c.Broadcast, size)
}

// errClass normalises a ReceiveTx error to a short class.
func errClass(err error) string {
	if err == nil {
		return "accepted"
	}
	s := err.Error()
	switch {
	case strings.Contains(s, "tx already exist in cache"), strings.Contains(s, "Tx already exists in cache"):
		return "rejected:exists"
	case strings.Contains(s, "tx nonce already exist in cache"):
		return "rejected:nonce-occupied"
	case strings.Contains(s, "different with getNonce"):
		return "rejected:stale-nonce"
	case strings.Contains(s, "queue is full"):
		return "rejected:queue-full"
	case strings.Contains(s, "Too many unsolved TX"):
		return "rejected:too-many"
	}
	return "rejected:other"
}

func pickWeighted(rng interface{ Intn(int) int }, w []int) int {
	tot := 0
	for _, x := range w {
		tot += x
	}
	r := rng.Intn(tot)
	for i, x := range w {
		if r < x {
			return i
		}
		r -= x
	}
	return len(w) - 1
}

func sortedInts(m map[int]bool) []int {
	out := make([]int, 0, len(m))
	for k := range m {
		out = append(out, k)
	}
	sort.Ints(out)
	return out
}

// inputsLog keeps the operations of the history in progress on disk so that a
// worker killed by a panic leaves the failing history behind.
type inputsLog struct{ f *os.File }

func openInputs(path string) *inputsLog {
	f, err := os.OpenFile(path, os.O_CREATE|os.O_WRONLY|os.O_TRUNC, 0644)
	if err != nil {
		return &inputsLog{}
	}
	return &inputsLog{f}
}

func (l *inputsLog) reset(header string) {
	if l.f == nil {
		return
	}
	l.f.Truncate(0)
	l.f.Seek(0, 0)
	l.f.WriteString(header + "\n")
}

func (l *inputsLog) line(s string) {
	if l.f != nil {
		l.f.WriteString(s + "\n")
	}
}

// report is what a driver needs from the run (the worker's child Run).
type report struct {
	run *lib.Run
}

func (r report) violation(key, what string, trace []string, extra map[string]interface{}) {
	w := map[string]interface{}{"history": trace}
	for k, v := range extra {
		w[k] = v
	}
	r.run.ChildViolation(key, what, w)
}
