package main

// Sequential histories against the real pool of a real EVMApp, judged by a
// reference model (accounts -> state nonce, accepted transactions, committed set).

import (
	"fmt"
	"math/rand"
	"sort"
	"strings"
	"time"

	"github.com/dappledger/AnnChain/chain/app/evm"
	gtypes "github.com/dappledger/AnnChain/gemmill/types"

	"verif/evmdrive"
	"verif/lib"
)

// transaction status in the model
const (
	stNone      = iota // never accepted by the pool
	stLive             // accepted since the last flush, not contained in a committed block
	stMaybeGone        // accepted, but the pool may legitimately have let it go (gapped tx at an eviction, capacity)
	stCommitted        // contained in a committed block (valid or invalid there)
	stFlushed          // removed by Flush
)

// evmSeq is one worker's real application and pool.
type evmSeq struct {
	rep    report
	app    *evmdrive.App
	pool   gtypes.TxPool
	height int64
	lim    int // pendingLimit == waitingLimit == ext limit
	bcast  int
	wid    int
	log    *inputsLog
}

func openEvmSeq(rep report, dir string, blockSize, wid int, log *inputsLog) (*evmSeq, error) {
	app, err := evmdrive.Open(dir, blockSize)
	if err != nil {
		return nil, err
	}
	c := app.VerifPoolCounts()
	return &evmSeq{rep: rep, app: app, pool: app.GetTxPool(), lim: c.PendingLimit, bcast: c.PendingLimit + c.WaitingLimit, wid: wid, log: log}, nil
}

type txState struct {
	status      int
	execErr     string // how it executed in the committed block that contained it ("" = valid)
	committedAt int64
	reaccepted  bool // accepted again after a committed block contained it
	evictedRun  bool // was executable (consecutive after the state nonce, not the head) when an eviction pass ran
	reported    map[string]bool
}

type evmHist struct {
	w     *evmSeq
	id    string
	scope uint64
	shape string
	rng   *rand.Rand
	accts []*account
	txs   []*txInfo
	st    []*txState
	byKey map[string]int
	trace []string
	salt  uint32

	lastReap    []int
	capacity    bool // pending or waiting reached its limit since the last flush
	extCapacity bool
	leak        int
	leakCause   string
	keys        map[string]bool // class keys already reported in this history
	nAccepted   int
	nCommitTx   int
	sig         []string
}

func (h *evmHist) tr(format string, a ...interface{}) {
	s := fmt.Sprintf(format, a...)
	h.trace = append(h.trace, s)
	h.w.log.line(s)
}

func (h *evmHist) violate(key, what string, extra map[string]interface{}) {
	if h.keys[key] {
		h.w.rep.run.Count("violations_repeated_in_history", 1)
		return
	}
	h.keys[key] = true
	tr := append([]string{}, h.trace...)
	if extra == nil {
		extra = map[string]interface{}{}
	}
	extra["history_id"] = h.id
	extra["shape"] = h.shape
	extra["limits"] = fmt.Sprintf("pendingLimit=%d waitingLimit=%d extLimit=%d broadcastLimit=%d", h.w.lim, h.w.lim, h.w.lim, h.w.bcast)
	h.w.rep.violation(key, what, tr, extra)
}

func (h *evmHist) newTx(acct int, nonce uint64, kind string) *txInfo {
	h.salt++
	t := &txInfo{ID: len(h.txs), Acct: acct, Nonce: nonce, Salt: h.salt, Kind: kind}
	if kind == kAdmin {
		t.Acct = -1
		t.Bytes = buildAdmin(t.Salt, h.scope)
	} else {
		t.Bytes = buildTx(h.accts[acct], acct, nonce, t.Salt, kind, h.scope)
	}
	h.txs = append(h.txs, t)
	h.st = append(h.st, &txState{reported: map[string]bool{}})
	h.byKey[string(t.Bytes)] = t.ID
	return t
}

func (h *evmHist) stale(t *txInfo) bool {
	return t.Acct >= 0 && t.Nonce < h.accts[t.Acct].nonce
}

// maybePooled: the pool may hold it (accepted and not known to be gone; a committed transaction whose
// nonce is still current may still sit in pending). Only used to name the cause of a lookup-map leak.
func (h *evmHist) maybePooled(t *txInfo) bool {
	switch h.st[t.ID].status {
	case stLive, stMaybeGone:
		return true
	case stCommitted:
		return !h.stale(t)
	}
	return false
}

// owed: transactions the pool has accepted and must not lose.
func (h *evmHist) owed(t *txInfo) bool {
	return h.st[t.ID].status == stLive && !h.stale(t)
}

// executable run of an account: consecutive nonces from the state nonce each of
// which has an owed transaction.
func (h *evmHist) runLen(acct int) int {
	have := map[uint64]bool{}
	for _, t := range h.txs {
		if t.Acct == acct && h.owed(t) {
			have[t.Nonce] = true
		}
	}
	n := 0
	for have[h.accts[acct].nonce+uint64(n)] {
		n++
	}
	return n
}

func (h *evmHist) counts() (evm.VerifPoolCounts, int) {
	return h.w.app.VerifPoolCounts(), h.w.pool.Size()
}

// ---- oracles ---------------------------------------------------------------------

// bounds is evaluated after every operation.
func (h *evmHist) bounds(op string, cause string) {
	c, size := h.counts()
	run := h.w.rep.run
	run.Count("bound_checks", 1)
	lim := h.w.lim
	if c.Pending > lim {
		h.violate("bound:pending>pendingLimit", fmt.Sprintf("pending holds %d > limit %d after %s", c.Pending, lim, op), nil)
	}
	if c.Waiting > lim {
		h.violate("bound:waiting>waitingLimit", fmt.Sprintf("waiting holds %d > limit %d after %s", c.Waiting, lim, op), nil)
	}
	if c.Ext > lim {
		h.violate("bound:ext>limit", fmt.Sprintf("admin list holds %d > limit %d after %s", c.Ext, lim, op), nil)
	}
	if c.Broadcast > h.w.bcast {
		h.violate("bound:broadcast>limit", fmt.Sprintf("broadcast queue holds %d > limit %d after %s", c.Broadcast, h.w.bcast, op), nil)
	}
	leak := c.All - (c.Pending + c.Waiting)
	if leak > h.leak {
		if cause == "" {
			cause = "after-" + op
		}
		h.leakCause = cause
		h.tr("  !! lookup map %d > pending %d + waiting %d", c.All, c.Pending, c.Waiting)
		h.violate("bound:lookup-exceeds-queues:"+cause,
			fmt.Sprintf("the lookup map holds %d entries but pending+waiting hold %d (+%d in this step, %s): entries that no queue owns are never removed", c.All, c.Pending+c.Waiting, leak-h.leak, cause), nil)
	} else if leak < 0 {
		run.Count("lookup_smaller_than_queues", 1)
	}
	h.leak = leak
	if size > 3*lim {
		h.tr("  !! Size() %d > pendingLimit+waitingLimit+extLimit = %d", size, 3*lim)
		key := "bound:Size()>configured-limits:lookup-map-leak"
		if c.All <= c.Pending+c.Waiting {
			key = "bound:Size()>configured-limits:other"
		}
		h.violate(key, fmt.Sprintf("Size() = %d exceeds pendingLimit+waitingLimit+extLimit = %d (%s; last growth of the lookup map beyond the queues: %s)", size, 3*lim, countsString(c, size), h.leakCause), nil)
	}
	if c.Pending >= lim || c.Waiting >= lim {
		if !h.capacity {
			run.Count("histories_reaching_capacity", 1)
		}
		h.capacity = true
	}
	if c.Ext >= lim {
		h.extCapacity = true
	}
}

// reap calls Reap(n) and applies the order / no-duplicate / no-re-offer clauses.
func (h *evmHist) reap(n int, why string) []int {
	run := h.w.rep.run
	out := h.w.pool.Reap(n)
	ids := make([]int, 0, len(out))
	for _, b := range out {
		id, ok := h.byKey[string(b)]
		if !ok {
			id = -1
		}
		ids = append(ids, id)
	}
	h.tr("reap(%d)%s -> %s", n, why, idsString(h.txs, ids))
	run.Count("reaps", 1)
	run.Count(fmt.Sprintf("reaps_limit_%s", limitClass(n, h.w.lim)), 1)
	run.Count("offered_txs", int64(len(ids)))
	max := n
	if n < 0 {
		max = h.w.lim
	}
	if len(ids) > max {
		h.violate("reap:more-than-limit", fmt.Sprintf("Reap(%d) returned %d transactions", n, len(ids)), nil)
	}
	seenTx := map[int]bool{}
	next := map[int]uint64{}
	started := map[int]bool{}
	slot := map[string]int{}
	for _, id := range ids {
		if id < 0 {
			run.Count("anomaly_offer_of_unknown_bytes", 1)
			run.Inconclusive("Reap returned bytes that no submission of the history carries (history " + h.id + ")")
			continue
		}
		t, s := h.txs[id], h.st[id]
		if seenTx[id] {
			h.violate("dup:same-tx-twice-in-one-reap", fmt.Sprintf("%s appears twice in one Reap output", t), nil)
			continue
		}
		seenTx[id] = true
		switch s.status {
		case stCommitted:
			if !s.reported["reoffer"] {
				s.reported["reoffer"] = true
				key := "reoffer:" + reofferClass(t, s)
				h.violate(key, fmt.Sprintf("%s was contained in the block committed at height %d (%s) and is offered again by Reap", t, s.committedAt, execWord(s.execErr)), nil)
			} else {
				run.Count("reoffers_repeated", 1)
			}
		case stNone, stFlushed:
			run.Count("anomaly_offer_of_unaccepted_tx", 1)
			run.Inconclusive(fmt.Sprintf("Reap offered %s whose submission is not accepted/live in the model (history %s)", t, h.id))
		}
		if t.Kind == kAdmin {
			continue
		}
		sk := fmt.Sprintf("%d/%d", t.Acct, t.Nonce)
		if other, dup := slot[sk]; dup {
			h.violate("dup:same-account-and-nonce-in-one-reap", fmt.Sprintf("%s and %s (same account and nonce) are both offered", h.txs[other], t), nil)
			continue
		}
		slot[sk] = id
		a := h.accts[t.Acct]
		if !started[t.Acct] {
			started[t.Acct] = true
			next[t.Acct] = a.nonce
			if t.Nonce != a.nonce {
				dir := "above"
				if t.Nonce < a.nonce {
					dir = "below"
				}
				h.violate("order:first-offered-nonce-"+dir+"-state-nonce", fmt.Sprintf("account %c is at nonce %d but the first transaction offered for it is %s", 'a'+t.Acct, a.nonce, t), nil)
				next[t.Acct] = t.Nonce
			}
		}
		if t.Nonce != next[t.Acct] {
			h.violate("order:offered-nonces-not-consecutive", fmt.Sprintf("account %c: expected nonce %d next, Reap offers %s", 'a'+t.Acct, next[t.Acct], t), nil)
			next[t.Acct] = t.Nonce
		}
		next[t.Acct]++
	}
	h.lastReap = ids
	return ids
}

func limitClass(n, lim int) string {
	switch {
	case n < 0:
		return "negative"
	case n == 0:
		return "0"
	case n == 1:
		return "1"
	case n >= lim:
		return "large"
	}
	return "n"
}

func execWord(e string) string {
	if e == "" {
		return "executed as valid"
	}
	return "executed as invalid: " + e
}

func reofferClass(t *txInfo, s *txState) string {
	if t.Kind == kAdmin {
		if s.reaccepted {
			return "admin-tx-reaccepted-after-commit"
		}
		return "admin-tx-still-listed-after-commit"
	}
	how := "still-pooled"
	if s.reaccepted {
		how = "reaccepted"
	}
	switch {
	case s.execErr == "":
		return "committed-valid-tx:" + how
	case strings.Contains(s.execErr, "insufficient balance"):
		return "committed-invalid-tx:insufficient-balance:" + how
	case strings.Contains(s.execErr, "nonce too high"):
		return "committed-invalid-tx:nonce-too-high:" + how
	case strings.Contains(s.execErr, "nonce too low"):
		return "committed-invalid-tx:nonce-too-low:" + how
	}
	return "committed-invalid-tx:other:" + how
}

// quiescent: the no-loss clause. Called after a commit's updateToState and after
// an accepted submission whose nonce equals the state nonce.
func (h *evmHist) quiescent(why string) {
	run := h.w.rep.run
	ids := h.reap(-1, " (quiescent point: "+why+")")
	run.Count("quiescent_points", 1)
	offered := map[int]bool{}
	headOffered := map[int]bool{}
	for _, id := range ids {
		if id < 0 {
			continue
		}
		offered[id] = true
		t := h.txs[id]
		if t.Acct >= 0 && t.Nonce == h.accts[t.Acct].nonce {
			headOffered[t.Acct] = true
		}
	}
	truncated := len(ids) >= h.w.lim
	// admin-tagged transactions
	if h.extCapacity || truncated {
		run.Count("quiescent_admin_skipped_capacity", 1)
	} else {
		for _, t := range h.txs {
			if t.Kind == kAdmin && h.st[t.ID].status == stLive {
				run.Count("no_loss_obligations_checked", 1)
				if !offered[t.ID] {
					h.violate("drop:admin-tx-not-offered", fmt.Sprintf("%s was accepted, is in no committed block, the admin list never reached its limit, and a large Reap does not offer it", t), nil)
				}
			}
		}
	}
	if h.capacity || truncated {
		run.Count("quiescent_skipped_capacity", 1)
		return
	}
	for ai, a := range h.accts {
		var cands []*txInfo
		for _, t := range h.txs {
			if t.Acct == ai && t.Nonce == a.nonce && h.owed(t) {
				cands = append(cands, t)
			}
		}
		rl := h.runLen(ai)
		if rl > 0 {
			// executable transactions behind the head that the pool does not offer yet: they wait in
			// `waiting` until the head is committed. Delayed, not dropped: measured, not judged.
			for k := 1; k < rl; k++ {
				got := false
				for _, id := range ids {
					if id >= 0 && h.txs[id].Acct == ai && h.txs[id].Nonce == a.nonce+uint64(k) {
						got = true
					}
				}
				if got {
					run.Count("executable_successors_offered", 1)
				} else {
					run.Count("executable_successors_delayed_until_head_commits", 1)
				}
			}
		}
		if len(cands) == 0 {
			continue
		}
		run.Count("no_loss_obligations_checked", 1)
		if headOffered[ai] {
			continue
		}
		cause := "unexplained"
		all := true
		for _, t := range cands {
			if !h.st[t.ID].evictedRun {
				all = false
			}
		}
		if all {
			cause = "evicted-while-waiting-behind-its-pending-predecessor"
		}
		names := make([]string, len(cands))
		for i, t := range cands {
			names[i] = t.String()
		}
		h.violate("drop:executable-tx-never-offered:"+cause,
			fmt.Sprintf("account %c is at nonce %d; %s was accepted, is in no committed block, no queue ever reached its limit, yet a large Reap at a quiescent point (%s) offers nothing for that nonce", 'a'+ai, a.nonce, strings.Join(names, ","), why), nil)
		for _, t := range cands { // report once; the pool no longer has it
			h.st[t.ID].status = stMaybeGone
		}
	}
}

// ---- operations ------------------------------------------------------------------

func (h *evmHist) submit(t *txInfo, how string) {
	run := h.w.rep.run
	s := h.st[t.ID]
	prev := s.status
	dupOfLive := prev == stLive && !h.stale(t)
	preOffered := false
	if dupOfLive {
		for _, id := range h.reap(-1, " (probe before a duplicate)") {
			if id == t.ID {
				preOffered = true
			}
		}
	}
	sibling := false
	if t.Acct >= 0 {
		for _, o := range h.txs {
			if o.ID != t.ID && o.Acct == t.Acct && o.Nonce == t.Nonce && h.maybePooled(o) {
				sibling = true
			}
		}
	}
	pre, _ := h.counts()
	err := h.w.pool.ReceiveTx(t.Bytes)
	cls := errClass(err)
	h.tr("submit %s (%s) -> %s", t, how, cls)
	run.Count("submissions", 1)
	run.Count("submit_"+how, 1)
	run.Count("submit_result_"+cls, 1)
	if err != nil && cls == "rejected:other" {
		run.Distinct("other_rejections", err.Error())
	}
	if cls == "rejected:queue-full" {
		h.capacity = true
	}
	cause := ""
	if err == nil {
		h.nAccepted++
		switch {
		case dupOfLive && preOffered:
			h.violate("duplicate-accepted:original-pending", fmt.Sprintf("%s is in the pool (the Reap just before offered it) and the same bytes were accepted again", t), nil)
		case dupOfLive && s.evictedRun && !h.capacity:
			// the lookup map no longer knew it: the pool had let go of an executable transaction
			h.violate("drop:executable-tx-never-offered:evicted-while-waiting-behind-its-pending-predecessor",
				fmt.Sprintf("%s was accepted and executable (consecutive after the account's pending transactions), no queue reached its limit; after an eviction pass the pool accepts the same bytes again: it had dropped the transaction", t), nil)
		case dupOfLive && (t.Kind == kAdmin && h.extCapacity || t.Kind != kAdmin && h.capacity):
			run.Count("duplicate_accepted_after_capacity_was_reached", 1) // the original may have been displaced: legal
		case dupOfLive:
			h.violate("duplicate-accepted:original-not-offered", fmt.Sprintf("%s was accepted, is in no committed block, was not flushed, evicted or displaced, and the same bytes were accepted again", t), nil)
		}
		switch prev {
		case stCommitted:
			s.reaccepted = true
			run.Count("committed_tx_reaccepted", 1)
		default:
			s.status = stLive
			s.evictedRun = false
		}
		switch {
		case t.Kind == kAdmin:
		case pre.Waiting >= h.w.lim:
			cause = "after-displacing-a-waiting-tx-at-waiting-capacity"
		case sibling:
			cause = "after-accepting-a-second-tx-for-an-occupied-nonce"
		}
	} else {
		if dupOfLive {
			run.Count("duplicates_of_pooled_tx_rejected", 1)
		}
		if t.Kind != kAdmin && pre.Waiting >= h.w.lim {
			cause = "after-a-rejected-submission-displaced-a-waiting-tx-at-waiting-capacity"
		}
	}
	h.bounds("submit", cause)
	if err == nil && t.Acct >= 0 && t.Nonce == h.accts[t.Acct].nonce {
		h.quiescent("accepted submission at the state nonce")
	}
}

// commit executes and commits a block in production order: OnExecute, pool.Update, OnCommit (-> updateToState).
func (h *evmHist) commit(ids []int, how string) {
	run := h.w.rep.run
	var normal, all [][]byte
	for _, id := range ids {
		t := h.txs[id]
		all = append(all, t.Bytes)
		if t.Kind != kAdmin {
			normal = append(normal, t.Bytes)
		}
	}
	sibling := false
	slots := map[string]int{}
	for _, t := range h.txs {
		if t.Acct >= 0 && h.maybePooled(t) {
			k := fmt.Sprintf("%d/%d", t.Acct, t.Nonce)
			slots[k]++
			if slots[k] > 1 {
				sibling = true
			}
		}
	}
	h.w.height++
	ht := h.w.height
	blk := evmdrive.Block(ht, normal)
	r, err := h.w.app.OnExecute(ht, 0, blk)
	if err != nil {
		run.Inconclusive("OnExecute failed: " + err.Error())
		return
	}
	er, _ := r.(gtypes.ExecuteResult)
	upd := make([]gtypes.Tx, len(all))
	for i, b := range all {
		upd[i] = gtypes.Tx(b)
	}
	h.w.pool.Update(ht, upd)
	if _, err := h.w.app.OnCommit(ht, 0, blk); err != nil {
		run.Inconclusive("OnCommit failed: " + err.Error())
		return
	}
	invalid := map[int]string{}
	for _, it := range er.InvalidTxs {
		if id, ok := h.byKey[string(it.Bytes)]; ok {
			e := "invalid"
			if it.Error != nil {
				e = it.Error.Error()
			}
			invalid[id] = e
		}
	}
	var vs, is []string
	expect := map[int]uint64{}
	for _, id := range ids {
		t, s := h.txs[id], h.st[id]
		s.status = stCommitted
		s.committedAt = ht
		s.reaccepted = false
		s.reported["reoffer"] = false
		if t.Kind == kAdmin {
			s.execErr = ""
			vs = append(vs, t.String())
			continue
		}
		if e, bad := invalid[id]; bad {
			s.execErr = e
			is = append(is, t.String()+":"+e)
			run.Count("committed_txs_invalid", 1)
		} else {
			s.execErr = ""
			vs = append(vs, t.String())
			expect[t.Acct]++
			run.Count("committed_txs_valid", 1)
		}
	}
	var ns []string
	for ai, a := range h.accts {
		n, err := h.w.app.Nonce(a.addr)
		if err != nil {
			run.Inconclusive("nonce query failed: " + err.Error())
			return
		}
		if n != a.nonce+expect[ai] {
			run.Count("model_nonce_mismatch", 1)
		}
		a.nonce = n
		ns = append(ns, fmt.Sprintf("%c=%d", 'a'+ai, n))
	}
	h.nCommitTx += len(ids)
	h.tr("commit h=%d (%s) block=%s valid=%v invalid=%v -> state nonces %s", ht, how, idsString(h.txs, ids), vs, is, strings.Join(ns, " "))
	run.Count("commits", 1)
	run.Count("commit_"+how, 1)
	cause := "after-commit:no-two-pooled-txs-share-a-nonce"
	if sibling {
		cause = "after-commit:while-two-pooled-txs-share-a-nonce"
	}
	h.bounds("commit", cause)
	h.quiescent("after commit")
}

func (h *evmHist) flush() {
	h.w.pool.Flush()
	for _, s := range h.st {
		if s.status == stLive || s.status == stMaybeGone {
			s.status = stFlushed
		}
		// a committed tx that the pool still held is gone as well
		s.reaccepted = false
	}
	h.capacity, h.extCapacity = false, false
	h.tr("flush")
	h.w.rep.run.Count("flushes", 1)
	h.leak = 0
	h.bounds("flush", "")
	c, size := h.counts()
	if size != 0 || c.Pending+c.Waiting+c.All+c.Ext != 0 {
		h.w.rep.run.Count("nonempty_after_flush", 1)
	}
	h.lastReap = nil
}

// evict runs one pass of the eviction loop body with every account expired.
func (h *evmHist) evict() {
	h.evictModel()
	h.w.app.VerifSetWaitingLifetime(-1) // every heartbeat is older than the lifetime; no wall-clock value decides
	h.w.app.VerifEvictOnce()
	h.w.app.VerifSetWaitingLifetime(10 * time.Minute)
	h.tr("evict (one pass of the eviction loop, all accounts expired)")
	h.w.rep.run.Count("evictions", 1)
	h.bounds("evict", "")
}

// evictModel: what an eviction pass may legitimately take (gapped transactions) and what it may not
// (executable ones: consecutive after the state nonce).
func (h *evmHist) evictModel() {
	for ai := range h.accts {
		rl := h.runLen(ai)
		base := h.accts[ai].nonce
		for _, t := range h.txs {
			if t.Acct != ai || h.st[t.ID].status != stLive || h.stale(t) {
				continue
			}
			if t.Nonce < base+uint64(rl) {
				if t.Nonce > base {
					h.st[t.ID].evictedRun = true
				}
			} else {
				h.st[t.ID].status = stMaybeGone // gapped: eviction may take it
			}
		}
	}
}

func (h *evmHist) observe() {
	ai := h.rng.Intn(len(h.accts))
	n, err := h.w.pool.GetPendingMaxNonce(h.accts[ai].addr.Bytes())
	c, size := h.counts()
	h.tr("observe %s GetPendingMaxNonce(%c)=%d,%v", countsString(c, size), 'a'+ai, n, err)
	h.w.rep.run.Count("observations", 1)
	if err == nil && n < h.accts[ai].nonce {
		h.w.rep.run.Count("pending_max_nonce_below_state_nonce", 1)
	}
	h.bounds("observe", "")
}

// ---- generator -------------------------------------------------------------------

// operation kinds
const (
	oHead = iota
	oNext
	oGap
	oStale
	oSibling
	oDup
	oInvalid
	oAdmin
	oAdminDup
	oReap
	oCommit
	oFlush
	oEvict
	oObserve
	oCount
)

var opNames = []string{"head", "next", "gap", "stale", "sibling", "dup", "invalid", "admin", "admin-dup", "reap", "commit", "flush", "evict", "observe"}

var shapes = []struct {
	name string
	w    [oCount]int
	len  [2]int
}{
	//                 head next gap stale sib dup inv adm admdup reap commit flush evict obs
	{"mixed", [oCount]int{8, 24, 7, 3, 5, 6, 0, 4, 2, 14, 14, 1, 0, 3}, [2]int{20, 45}},
	{"siblings", [oCount]int{8, 18, 3, 1, 22, 5, 0, 0, 0, 12, 14, 0, 0, 3}, [2]int{20, 40}},
	{"invalid", [oCount]int{8, 20, 4, 1, 4, 4, 7, 1, 0, 14, 16, 0, 0, 2}, [2]int{20, 40}},
	{"gaps-and-capacity", [oCount]int{4, 12, 40, 2, 4, 3, 0, 6, 1, 8, 8, 1, 0, 3}, [2]int{30, 70}},
	{"evict", [oCount]int{8, 26, 10, 1, 3, 3, 0, 0, 0, 12, 12, 0, 8, 2}, [2]int{20, 40}},
	{"admin", [oCount]int{4, 10, 2, 0, 0, 2, 0, 30, 10, 14, 14, 1, 0, 3}, [2]int{20, 50}},
	{"plain", [oCount]int{10, 40, 0, 0, 0, 0, 0, 0, 0, 20, 25, 0, 0, 2}, [2]int{15, 35}},
}

func (w *evmSeq) history(hid int64, shapeIdx int) {
	run := w.rep.run
	sh := shapes[shapeIdx%len(shapes)]
	rng := lib.Rand(fmt.Sprintf("c19-evm-%d", w.lim), hid)
	h := &evmHist{w: w, id: fmt.Sprintf("evm/lim%d/%d", w.lim, hid), scope: uint64(hid)<<8 | uint64(w.lim&0xff), shape: sh.name, rng: rng,
		byKey: map[string]int{}, keys: map[string]bool{}}
	w.log.reset(fmt.Sprintf("history %s shape=%s seed=%d", h.id, sh.name, lib.Seed()))
	w.pool.Flush()
	na := 2 + rng.Intn(3)
	for i := 0; i < na; i++ {
		h.accts = append(h.accts, newAccount(fmt.Sprintf("c19-%d-%d-%d-%d", lib.Seed(), w.lim, hid, i)))
	}
	h.tr("history %s: shape %s, %d fresh accounts at nonce 0, limits %d", h.id, sh.name, na, w.lim)
	h.bounds("start", "")
	nops := sh.len[0] + rng.Intn(sh.len[1]-sh.len[0]+1)
	if sh.name == "siblings" && rng.Intn(4) == 0 {
		// flood: one occupied nonce, then more same-nonce transactions than all limits together
		t := h.newTx(0, 0, kNormal)
		h.submit(t, "head")
		for i := 0; i < 3*w.lim+3; i++ {
			h.submit(h.newTx(0, 0, kNormal), "sibling")
		}
		h.sig = append(h.sig, "flood")
	}
	if na >= 3 && w.lim >= 8 && rng.Intn(6) == 0 {
		// promotion at capacity: pending four short of its limit, then one commit that makes the
		// waiting successors of two accounts executable at once (3 + 3 candidates for 4 places)
		for n := w.lim - 5; n >= 1; n-- {
			h.submit(h.newTx(0, uint64(n), kNormal), "gap")
		}
		h.submit(h.newTx(0, 0, kNormal), "head")
		ta, tb := h.newTx(1, 0, kNormal), h.newTx(2, 0, kNormal)
		h.submit(ta, "head")
		h.submit(tb, "head")
		for n := uint64(1); n <= 3; n++ {
			h.submit(h.newTx(1, n, kNormal), "next")
			h.submit(h.newTx(2, n, kNormal), "next")
		}
		h.reap(-1, "")
		h.commit([]int{ta.ID, tb.ID}, "subset")
		h.sig = append(h.sig, "promotion-at-capacity")
		run.Count("histories_promotion_at_capacity", 1)
	}
	if w.lim >= 8 && len(h.sig) == 0 && rng.Intn(6) == 0 {
		// gap filler at waiting capacity: nonces 1..limit of one account fill the waiting queue, one
		// more is turned away or displaces, then nonce 0 arrives: everything up to the capacity of
		// pending is executable now and must be offered in nonce order
		for n := 1; n <= w.lim; n++ {
			h.submit(h.newTx(0, uint64(n), kNormal), "gap")
		}
		h.submit(h.newTx(0, uint64(w.lim+1), kNormal), "gap")
		t0 := h.newTx(0, 0, kNormal)
		h.submit(t0, "head")
		ids := h.reap(-1, "")
		h.bounds("reap", "")
		if h.st[t0.ID].status == stLive {
			// whatever the pool displaced to make room: the transaction at the state nonce was accepted,
			// pending is empty, so it is executable below capacity and must be offered, first
			if len(ids) == 0 || ids[0] != t0.ID {
				h.violate("drop:executable-tx-never-offered:accepted-at-the-state-nonce-while-the-waiting-queue-was-full",
					fmt.Sprintf("%s was accepted at the account's state nonce while the waiting queue was full (pending empty); the next Reap(-1) offers %s", t0, idsString(h.txs, ids)), nil)
			}
		}
		h.sig = append(h.sig, "gap-filler-at-waiting-capacity")
		run.Count("histories_gap_filler_at_waiting_capacity", 1)
	}
	for i := 0; i < nops; i++ {
		op := pickWeighted(rng, sh.w[:])
		h.step(op)
	}
	// closing sequence: commit whatever is offered until nothing is, so that every history sees the commit path
	for k := 0; k < 3; k++ {
		ids := h.reap(w.lim, "")
		if len(ids) == 0 {
			break
		}
		h.commit(dedupe(ids), "all")
	}
	run.Count("histories_evm_seq", 1)
	run.Count("histories_evm_seq_shape_"+sh.name, 1)
	run.Eval()
	if h.nAccepted > 0 && h.nCommitTx > 0 {
		sort.Strings(h.sig)
		run.Nontrivial("evm:" + lib.Hash12(strings.Join(h.trace[1:], "\n")))
	}
	if hid%97 == 0 {
		run.Sample(map[string]interface{}{"history": h.id, "shape": sh.name, "trace": h.trace})
	}
}

func dedupe(ids []int) []int {
	seen := map[int]bool{}
	var out []int
	for _, id := range ids {
		if id >= 0 && !seen[id] {
			seen[id] = true
			out = append(out, id)
		}
	}
	return out
}

func (h *evmHist) pickAcct() int { return h.rng.Intn(len(h.accts)) }

func (h *evmHist) maxOwedNonce(ai int) (uint64, bool) {
	var m uint64
	ok := false
	for _, t := range h.txs {
		if t.Acct == ai && h.owed(t) && (!ok || t.Nonce > m) {
			m, ok = t.Nonce, true
		}
	}
	return m, ok
}

func (h *evmHist) step(op int) {
	run := h.w.rep.run
	rng := h.rng
	run.Count("op_"+opNames[op], 1)
	switch op {
	case oHead:
		ai := h.pickAcct()
		h.submit(h.newTx(ai, h.accts[ai].nonce, kNormal), "head")
	case oNext:
		ai := h.pickAcct()
		n := h.accts[ai].nonce
		if m, ok := h.maxOwedNonce(ai); ok {
			n = m + 1
		}
		h.submit(h.newTx(ai, n, kNormal), "next")
	case oGap:
		ai := h.pickAcct()
		n := h.accts[ai].nonce
		if m, ok := h.maxOwedNonce(ai); ok {
			n = m + 1
		}
		h.submit(h.newTx(ai, n+1+uint64(rng.Intn(4)), kNormal), "gap")
	case oStale:
		ai := h.pickAcct()
		if h.accts[ai].nonce == 0 {
			h.submit(h.newTx(ai, 0, kNormal), "head")
			return
		}
		h.submit(h.newTx(ai, uint64(rng.Int63n(int64(h.accts[ai].nonce))), kNormal), "stale")
	case oSibling:
		var c []*txInfo
		for _, t := range h.txs {
			if t.Acct >= 0 && (h.st[t.ID].status == stLive) && !h.stale(t) {
				c = append(c, t)
			}
		}
		if len(c) == 0 {
			h.step(oNext)
			return
		}
		o := c[rng.Intn(len(c))]
		h.submit(h.newTx(o.Acct, o.Nonce, kNormal), "sibling")
	case oDup:
		var c []*txInfo
		for _, t := range h.txs {
			if t.Kind != kAdmin {
				c = append(c, t)
			}
		}
		if len(c) == 0 {
			h.step(oNext)
			return
		}
		o := c[rng.Intn(len(c))]
		how := "dup-of-" + statusWord(h.st[o.ID].status)
		h.submit(o, how)
	case oInvalid:
		ai := h.pickAcct()
		n := h.accts[ai].nonce
		if m, ok := h.maxOwedNonce(ai); ok && rng.Intn(2) == 0 {
			n = m + 1
		}
		h.submit(h.newTx(ai, n, kInvalid), "will-execute-as-invalid")
	case oAdmin:
		h.submit(h.newTx(-1, 0, kAdmin), "admin")
	case oAdminDup:
		var c []*txInfo
		for _, t := range h.txs {
			if t.Kind == kAdmin {
				c = append(c, t)
			}
		}
		if len(c) == 0 {
			h.step(oAdmin)
			return
		}
		o := c[rng.Intn(len(c))]
		h.submit(o, "admin-dup-of-"+statusWord(h.st[o.ID].status))
	case oReap:
		lims := []int{0, 1, 2, 1 + rng.Intn(h.w.lim), -1, h.w.lim, h.w.lim * 3}
		h.reap(lims[rng.Intn(len(lims))], "")
		h.bounds("reap", "")
	case oCommit:
		h.genCommit()
	case oFlush:
		h.flush()
	case oEvict:
		h.evict()
	case oObserve:
		h.observe()
	}
}

func statusWord(s int) string {
	return []string{"unaccepted", "pooled", "maybe-gone", "committed", "flushed"}[s]
}

// genCommit commits a subset of the last Reap output (plus, sometimes, what another
// proposer's block would contain: a transaction this pool never saw).
func (h *evmHist) genCommit() {
	rng := h.rng
	last := dedupe(h.lastReap)
	if len(last) == 0 && rng.Intn(3) > 0 {
		last = dedupe(h.reap(1+rng.Intn(h.w.lim), ""))
	}
	var ids []int
	how := ""
	switch k := rng.Intn(10); {
	case k < 4:
		ids, how = last, "all"
	case k < 6:
		ids, how = last[:rng.Intn(len(last)+1)], "prefix"
	case k < 8:
		for _, id := range last {
			if rng.Intn(2) == 0 {
				ids = append(ids, id)
			}
		}
		how = "subset"
	case k < 9:
		how = "empty"
	default:
		ids, how = last, "all"
	}
	if rng.Intn(6) == 0 {
		// foreign: same account and nonce as the state, never submitted to this pool
		ai := h.pickAcct()
		clash := false
		for _, id := range ids {
			if h.txs[id].Acct == ai {
				clash = true
			}
		}
		if !clash {
			t := h.newTx(ai, h.accts[ai].nonce, kNormal)
			ids = append([]int{t.ID}, ids...)
			how += "+foreign"
		}
	}
	h.commit(ids, how)
}
