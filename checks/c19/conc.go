package main

// Concurrent histories: submitter goroutines against the commit path, recorded at
// the client boundary (call/return stamps from one counter) and checked with
// porcupine. The model's Step validates the legality of an output given the
// accepted / committed sets, since cross-account order is unspecified.

import (
	"fmt"
	"math/rand"
	"runtime"
	"runtime/debug"
	"sort"
	"strings"
	"sync"
	"sync/atomic"
	"time"

	"github.com/anishathalye/porcupine"

	"github.com/dappledger/AnnChain/gemmill/mempool"
	gtypes "github.com/dappledger/AnnChain/gemmill/types"

	"verif/evmdrive"
	"verif/lib"
)

type cin struct {
	Kind  string // submit | reap | commit | flush
	Tx    int
	N     int
	Block []int
	Obs   bool // a Reap by the RPC-side observer: outside the property's quantifier (submitters against the commit path)
}

// core drops the observer's reaps: the property quantifies over submitters interleaved with the commit path.
func core(ops []porcupine.Operation) []porcupine.Operation {
	var out []porcupine.Operation
	for _, o := range ops {
		if !o.Input.(cin).Obs {
			out = append(out, o)
		}
	}
	return out
}

type cout struct {
	OK     bool
	Err    string
	List   []int
	Nonces [4]uint64
}

const porcupineTimeout = 6 * time.Second // watchdog of the checker: expiry = Unknown = inconclusive for that history

type recorder struct {
	clock int64
	mtx   sync.Mutex
	ops   []porcupine.Operation
}

func (r *recorder) do(client int, in cin, f func() cout) cout {
	call := atomic.AddInt64(&r.clock, 1)
	out := f()
	ret := atomic.AddInt64(&r.clock, 1)
	r.mtx.Lock()
	r.ops = append(r.ops, porcupine.Operation{ClientId: client, Input: in, Call: call, Output: out, Return: ret})
	r.mtx.Unlock()
	return out
}

func (r *recorder) sorted() []porcupine.Operation {
	ops := append([]porcupine.Operation{}, r.ops...)
	sort.Slice(ops, func(i, j int) bool { return ops[i].Call < ops[j].Call })
	return ops
}

type bits [3]uint64

func (b bits) has(i int) bool  { return b[i>>6]&(1<<uint(i&63)) != 0 }
func (b bits) with(i int) bits { b[i>>6] |= 1 << uint(i&63); return b }

const maxConcTx = 190

func describe(txs []*txInfo, ops []porcupine.Operation) []string {
	var out []string
	for _, o := range ops {
		in, ou := o.Input.(cin), o.Output.(cout)
		s := ""
		switch in.Kind {
		case "submit":
			r := "accepted"
			if !ou.OK {
				r = ou.Err
			}
			s = fmt.Sprintf("submit %s -> %s", name1(txs, in.Tx), r)
		case "reap":
			s = fmt.Sprintf("reap(%d) -> %s", in.N, names(txs, ou.List))
		case "commit":
			s = fmt.Sprintf("commit block=%s -> nonces %v", names(txs, in.Block), ou.Nonces)
		case "flush":
			s = "flush"
		}
		out = append(out, fmt.Sprintf("[%3d,%3d] client %d: %s", o.Call, o.Return, o.ClientId, s))
	}
	return out
}

func name1(txs []*txInfo, id int) string {
	if id < 0 || id >= len(txs) {
		return "?"
	}
	if txs[id].Kind == "mem" {
		return fmt.Sprintf("t%d", id)
	}
	return txs[id].String()
}

func names(txs []*txInfo, ids []int) string {
	p := make([]string, len(ids))
	for i, id := range ids {
		p[i] = name1(txs, id)
	}
	return "[" + strings.Join(p, " ") + "]"
}

// ---- EVM pool ---------------------------------------------------------------------

type estate struct {
	acc, com bits
	nonce    [4]uint64
}

func evmModel(txs []*txInfo, lim int) porcupine.Model {
	return porcupine.Model{
		Init: func() interface{} { return estate{} },
		Step: func(state, input, output interface{}) (bool, interface{}) {
			st, in, out := state.(estate), input.(cin), output.(cout)
			switch in.Kind {
			case "submit":
				if !out.OK {
					return true, st // any refusal is reported to the client: never a loss, never a duplicate
				}
				t := txs[in.Tx]
				if st.acc.has(in.Tx) && !st.com.has(in.Tx) && (t.Acct < 0 || t.Nonce >= st.nonce[t.Acct]) {
					return false, st // exact duplicate of a transaction still in the pool was accepted
				}
				st.acc = st.acc.with(in.Tx)
				return true, st
			case "reap":
				max := in.N
				if in.N < 0 {
					max = lim
				}
				if len(out.List) > max {
					return false, st
				}
				next := st.nonce
				var seen bits
				for _, id := range out.List {
					if id < 0 || seen.has(id) || !st.acc.has(id) || st.com.has(id) {
						return false, st
					}
					seen = seen.with(id)
					t := txs[id]
					if t.Acct < 0 {
						continue
					}
					if t.Nonce != next[t.Acct] {
						return false, st
					}
					next[t.Acct]++
				}
				return true, st
			case "commit":
				for _, id := range in.Block {
					st.com = st.com.with(id)
				}
				st.nonce = out.Nonces
				return true, st
			case "flush":
				st.acc = bits{}
				return true, st
			}
			return false, st
		},
	}
}

type concEvm struct {
	rep    report
	app    *evmdrive.App
	pool   gtypes.TxPool
	height int64
	lim    int
}

func (c *concEvm) history(hid int64) {
	run := c.rep.run
	rng := lib.Rand("c19-conc-evm", hid)
	c.pool.Flush()
	scope := uint64(hid)<<8 | 0xcc
	var accts []*account
	for i := 0; i < 4; i++ {
		accts = append(accts, newAccount(fmt.Sprintf("c19c-%d-%d-%d", lib.Seed(), hid, i)))
	}
	var txs []*txInfo
	byKey := map[string]int{}
	var saltc uint32
	mk := func(acct int, nonce uint64, kind string) *txInfo {
		saltc++
		t := &txInfo{ID: len(txs), Acct: acct, Nonce: nonce, Salt: saltc, Kind: kind}
		if kind == kAdmin {
			t.Acct = -1
			t.Bytes = buildAdmin(saltc, scope)
		} else {
			t.Bytes = buildTx(accts[acct], acct, nonce, saltc, kind, scope)
		}
		txs = append(txs, t)
		byKey[string(t.Bytes)] = t.ID
		return t
	}
	// plan of submissions
	var plan []int
	perAcct := [3]int{}
	for ai := 0; ai < 3; ai++ {
		perAcct[ai] = 3 + rng.Intn(4)
		for n := 0; n < perAcct[ai]; n++ {
			plan = append(plan, mk(ai, uint64(n), kNormal).ID)
		}
	}
	for k := rng.Intn(3); k > 0; k-- { // same-nonce replacements
		ai := rng.Intn(3)
		plan = append(plan, mk(ai, uint64(rng.Intn(perAcct[ai])), kNormal).ID)
	}
	for k := rng.Intn(2); k > 0; k-- { // gapped
		ai := rng.Intn(3)
		plan = append(plan, mk(ai, uint64(perAcct[ai]+1+rng.Intn(3)), kNormal).ID)
	}
	for k := rng.Intn(3); k > 0; k-- {
		plan = append(plan, mk(-1, 0, kAdmin).ID)
	}
	base := len(plan)
	for k := 1 + rng.Intn(3); k > 0; k-- { // exact duplicates of normal transactions
		id := plan[rng.Intn(base)]
		if txs[id].Kind == kNormal {
			plan = append(plan, id)
		}
	}
	// a mild shuffle: mostly ascending per account, some arrive out of order
	for i := range plan {
		if rng.Intn(3) == 0 {
			j := rng.Intn(len(plan))
			plan[i], plan[j] = plan[j], plan[i]
		}
	}
	nsub := 3 + rng.Intn(2)
	lists := make([][]int, nsub)
	for i, id := range plan {
		k := (i + rng.Intn(2)) % nsub
		lists[k] = append(lists[k], id)
	}
	sentinel := mk(3, 0, kNormal)
	withFlush := rng.Intn(5) == 0
	withReader := (!withFlush && rng.Intn(2) == 0) || (withFlush && rng.Intn(4) == 0)
	rounds := 3 + rng.Intn(3)
	// foreign transactions are built by the committer when it uses them (never submitted to the pool)
	foreignAt := map[int]int{}
	for k := rng.Intn(3); k > 0; k-- {
		foreignAt[rng.Intn(rounds)] = rng.Intn(3)
	}
	reapLims := make([]int, rounds)
	prefix := make([]int, rounds)
	for i := range reapLims {
		reapLims[i] = []int{1, 2, 3, c.lim, -1, -1}[rng.Intn(6)]
		prefix[i] = rng.Intn(4)
	}
	var txMtx sync.Mutex // guards txs/byKey growth by the committer (foreign txs)

	rec := &recorder{}
	lookup := func(out []gtypes.Tx) []int {
		txMtx.Lock()
		defer txMtx.Unlock()
		ids := make([]int, len(out))
		for i, b := range out {
			id, ok := byKey[string(b)]
			if !ok {
				id = -1
			}
			ids[i] = id
		}
		return ids
	}
	submit := func(client, id int) bool {
		txMtx.Lock()
		b := txs[id].Bytes
		txMtx.Unlock()
		o := rec.do(client, cin{Kind: "submit", Tx: id}, func() cout {
			err := c.pool.ReceiveTx(b)
			if err != nil {
				return cout{Err: errClass(err)}
			}
			return cout{OK: true}
		})
		return o.OK
	}
	reapAs := func(client, n int, obs bool) []int {
		o := rec.do(client, cin{Kind: "reap", N: n, Obs: obs}, func() cout { return cout{List: lookup(c.pool.Reap(n))} })
		return o.List
	}
	reap := func(client, n int) []int { return reapAs(client, n, false) }
	var nonces [4]uint64
	commit := func(client int, ids []int) {
		var normal [][]byte
		var upd []gtypes.Tx
		txMtx.Lock()
		for _, id := range ids {
			upd = append(upd, gtypes.Tx(txs[id].Bytes))
			if txs[id].Kind != kAdmin {
				normal = append(normal, txs[id].Bytes)
			}
		}
		txMtx.Unlock()
		rec.do(client, cin{Kind: "commit", Block: ids}, func() cout {
			c.height++
			blk := evmdrive.Block(c.height, normal)
			if _, err := c.app.OnExecute(c.height, 0, blk); err != nil {
				run.Inconclusive("OnExecute: " + err.Error())
			}
			c.pool.Update(c.height, upd)
			if _, err := c.app.OnCommit(c.height, 0, blk); err != nil {
				run.Inconclusive("OnCommit: " + err.Error())
			}
			for i, a := range accts {
				n, err := c.app.Nonce(a.addr)
				if err != nil {
					run.Inconclusive("nonce query: " + err.Error())
				}
				nonces[i] = n
			}
			return cout{Nonces: nonces}
		})
	}

	var wg sync.WaitGroup
	var stop int32
	var boundBad int32
	tx0 := txs[0].Bytes
	readerDone := make(chan struct{})
	var reads int64
	if withReader {
		go func() { // what mempool.reactor.broadcastTxRoutine does with the pool
			defer close(readerDone)
			defer func() {
				// the reactor's goroutine has no recover: in a node this panic ends the process
				if r := recover(); r != nil {
					st := string(debug.Stack())
					run.Count("gossip_reader_panics", 1)
					c.rep.violation("panic:"+panicSite("panic: "+st), fmt.Sprintf("the gossip routine's walk over the pool's broadcast list (TxsFrontWait/NextWait, as mempool/reactor.go broadcastTxRoutine does) panicked: %v", r),
						nil, map[string]interface{}{"panic": fmt.Sprint(r), "stack": st, "history_id": fmt.Sprintf("conc-evm/%d", hid),
							"schedule": "reader goroutine walks the broadcast list while submitters push and the commit path removes committed transactions (Update -> refreshBroadcastList -> CList.Remove)"})
				}
			}()
			for atomic.LoadInt32(&stop) == 0 {
				e := c.pool.TxsFrontWait()
				for e != nil {
					_ = e.Value.(*gtypes.TxInPool).GetHeight()
					atomic.AddInt64(&reads, 1)
					if atomic.LoadInt32(&stop) == 1 {
						return
					}
					e = e.NextWait()
				}
			}
		}()
	} else {
		close(readerDone)
	}
	for s := 0; s < nsub; s++ {
		wg.Add(1)
		go func(s int) {
			defer wg.Done()
			for _, id := range lists[s] {
				submit(s, id)
				runtime.Gosched()
			}
		}(s)
	}
	wg.Add(1)
	go func() { // the commit path (consensus goroutine)
		defer wg.Done()
		for r := 0; r < rounds; r++ {
			ids := dedupe(reap(nsub, reapLims[r]))
			if prefix[r] == 0 && len(ids) > 1 {
				ids = ids[:len(ids)/2]
			}
			if ai, ok := foreignAt[r]; ok {
				clash := false
				for _, id := range ids {
					if txs[id].Acct == ai {
						clash = true
					}
				}
				if !clash {
					txMtx.Lock()
					f := mk(ai, nonces[ai], kNormal)
					txMtx.Unlock()
					ids = append([]int{f.ID}, ids...)
				}
			}
			commit(nsub, ids)
			runtime.Gosched()
		}
	}()
	wg.Add(1)
	go func() { // observer: RPC-side readers (and the unsafe flush)
		defer wg.Done()
		for k := 0; k < 6; k++ {
			reapAs(nsub+1, -1, true)
			_ = c.pool.Size()
			_, _ = c.pool.GetPendingMaxNonce(accts[k%3].addr.Bytes())
			_, _, _ = c.app.CheckTx(tx0)
			pc := c.app.VerifPoolCounts()
			if pc.Pending > pc.PendingLimit || pc.Waiting > pc.WaitingLimit || pc.Ext > pc.PendingLimit || pc.Broadcast > pc.PendingLimit+pc.WaitingLimit {
				atomic.StoreInt32(&boundBad, 1)
			}
			if withFlush && k == 3 {
				rec.do(nsub+1, cin{Kind: "flush"}, func() cout { c.pool.Flush(); return cout{} })
			}
			runtime.Gosched()
		}
	}()
	wg.Wait()
	// closing, sequential: one more block, then a large Reap at a quiescent point
	commit(nsub, dedupe(reap(nsub, c.lim)))
	atomic.StoreInt32(&stop, 1)
	submit(0, sentinel.ID)
	final := reap(nsub, -1)
	if withFlush && withReader {
		// after Flush the reader may sit on the replaced list for good: do not wait for it
		select {
		case <-readerDone:
		default:
			run.Count("conc_gossip_reader_left_on_flushed_list", 1)
		}
	} else {
		select {
		case <-readerDone:
		case <-time.After(5 * time.Second): // watchdog only
			run.Count("conc_gossip_reader_left_behind", 1)
		}
	}
	run.Count("conc_gossip_reads", atomic.LoadInt64(&reads))

	all := rec.sorted()
	ops := core(all)
	run.Count("conc_evm_histories", 1)
	run.Count("conc_evm_observer_reaps", int64(len(all)-len(ops)))
	run.Count("conc_evm_operations", int64(len(ops)))
	if withFlush {
		run.Count("conc_evm_histories_with_flush", 1)
	}
	if withReader {
		run.Count("conc_evm_histories_with_gossip_reader", 1)
	}
	run.Eval()
	overlap := countOverlaps(ops)
	run.Count("conc_evm_overlapping_pairs", int64(overlap))
	if overlap > 0 {
		run.Nontrivial("cevm:" + lib.Hash12(hid, len(ops), overlap))
	}
	trace := describe(txs, ops)
	witness := func() map[string]interface{} {
		return map[string]interface{}{"history_id": fmt.Sprintf("conc-evm/%d", hid), "limits": c.lim, "submitters": nsub}
	}
	if atomic.LoadInt32(&boundBad) == 1 {
		c.rep.violation("conc:bound:queue-over-its-limit", "a queue of the EVM pool was observed above its configured limit during a concurrent history", trace, witness())
	}
	diag := diagnoseEvm(txs, ops)
	res, _ := porcupine.CheckOperationsVerbose(evmModel(txs, c.lim), ops, porcupineTimeout)
	run.Count("porcupine_evm_"+strings.ToLower(string(res)), 1)
	switch res {
	case porcupine.Illegal:
		key := "conc:evm:not-linearizable:" + diag
		if diag == "" {
			key = "conc:evm:not-linearizable:unclassified"
		}
		c.rep.violation(key, "no sequential order of the recorded operations consistent with their call/return times is legal for the pool model ("+diag+")", trace, witness())
	case porcupine.Ok:
		if diag != "" {
			run.Count("diagnosis_disagrees_with_porcupine", 1)
			run.Inconclusive("direct diagnosis " + diag + " fired on a history porcupine accepts (conc-evm " + fmt.Sprint(hid) + ")")
		}
		// with the observer's reaps (RPC UnconfirmedTxs during a commit): measured, not judged
		if r2, _ := porcupine.CheckOperationsVerbose(evmModel(txs, c.lim), all, porcupineTimeout); r2 == porcupine.Illegal {
			run.Count("observer_reap_saw_inconsistent_snapshot", 1)
			if run.Get("observer_reap_saw_inconsistent_snapshot") <= 2 {
				lib.WriteObservation(prop, fmt.Sprintf("observer-reap-inconsistent-conc-evm-%d", hid), map[string]interface{}{
					"note": "a Reap(-1) by an RPC-side reader overlapping OnCommit is neither the pre-commit nor the post-commit pool: the state nonce is swapped before updateToState prunes the pool", "history": describe(txs, all)})
			}
		}
	}
	// no loss at the final quiescent point (histories without flush; limits are never reached here)
	if !withFlush && res != porcupine.Illegal {
		accepted := map[int]bool{}
		committed := map[int]bool{}
		for _, o := range ops {
			in, ou := o.Input.(cin), o.Output.(cout)
			if in.Kind == "submit" && ou.OK {
				accepted[in.Tx] = true
			}
			if in.Kind == "commit" {
				for _, id := range in.Block {
					committed[id] = true
				}
			}
		}
		head := map[int]bool{}
		for _, id := range final {
			if id >= 0 && txs[id].Acct >= 0 && txs[id].Nonce == nonces[txs[id].Acct] {
				head[txs[id].Acct] = true
			}
		}
		off := map[int]bool{}
		for _, id := range final {
			off[id] = true
		}
		for id := range accepted {
			t := txs[id]
			if committed[id] {
				continue
			}
			if t.Acct < 0 {
				run.Count("conc_no_loss_obligations_checked", 1)
				if !off[id] {
					c.rep.violation("conc:drop:admin-tx-not-offered", fmt.Sprintf("%s accepted, never committed, not offered at the final quiescent point", t), trace, witness())
				}
				continue
			}
			if t.Nonce == nonces[t.Acct] {
				run.Count("conc_no_loss_obligations_checked", 1)
				if !head[t.Acct] {
					c.rep.violation("conc:drop:executable-tx-never-offered", fmt.Sprintf("%s accepted, never committed, its nonce is the account's current nonce, and the final large Reap offers nothing for it", t), trace, witness())
				}
			}
		}
	}
	if hid%53 == 0 {
		run.Sample(map[string]interface{}{"history": fmt.Sprintf("conc-evm/%d", hid), "porcupine": string(res), "trace": trace})
	}
}

func countOverlaps(ops []porcupine.Operation) int {
	n := 0
	for i := range ops {
		for j := i + 1; j < len(ops); j++ {
			if ops[j].Call < ops[i].Return && ops[i].ClientId != ops[j].ClientId {
				n++
			}
		}
	}
	return n
}

// diagnoseEvm: checks that hold whatever the interleaving was; they name the class of an illegal history.
func diagnoseEvm(txs []*txInfo, ops []porcupine.Operation) string {
	if d := diagnoseDuplicate(txs, ops); d != "" {
		return d
	}
	for _, o := range ops {
		in, ou := o.Input.(cin), o.Output.(cout)
		if in.Kind != "reap" {
			continue
		}
		seen := map[int]bool{}
		slot := map[string]bool{}
		next := map[int]uint64{}
		for _, id := range ou.List {
			if id < 0 {
				return "reap-of-unknown-bytes"
			}
			if seen[id] {
				return "same-tx-twice-in-one-reap"
			}
			seen[id] = true
			t := txs[id]
			if t.Acct < 0 {
				continue
			}
			k := fmt.Sprintf("%d/%d", t.Acct, t.Nonce)
			if slot[k] {
				return "same-account-and-nonce-in-one-reap"
			}
			slot[k] = true
			if n, ok := next[t.Acct]; ok && t.Nonce != n {
				return "offered-nonces-not-consecutive"
			}
			next[t.Acct] = t.Nonce + 1
		}
		// re-offer of a transaction of a commit that had returned before the reap was called
		var lo, hi [4]uint64
		for _, p := range ops {
			pin, pou := p.Input.(cin), p.Output.(cout)
			if pin.Kind != "commit" {
				continue
			}
			if p.Return < o.Call {
				for _, id := range pin.Block {
					if seen[id] {
						return "reoffer-after-commit-returned"
					}
				}
				lo = pou.Nonces
			}
			if p.Call < o.Return {
				hi = pou.Nonces
			}
		}
		first := map[int]bool{}
		for _, id := range ou.List {
			t := txs[id]
			if t.Acct < 0 || first[t.Acct] {
				continue
			}
			first[t.Acct] = true
			if t.Nonce < lo[t.Acct] {
				return "first-offered-nonce-below-state-nonce"
			}
			if t.Nonce > hi[t.Acct] {
				return "first-offered-nonce-above-state-nonce"
			}
		}
		// offered without any accepted submission that could precede the reap
		for _, id := range ou.List {
			ok := false
			for _, p := range ops {
				pin, pou := p.Input.(cin), p.Output.(cout)
				if pin.Kind == "submit" && pin.Tx == id && pou.OK && p.Call < o.Return {
					ok = true
				}
			}
			if !ok {
				return "offer-of-unaccepted-tx"
			}
		}
	}
	return ""
}

// diagnoseDuplicate: the same bytes accepted twice in a history without flush, no commit containing the
// transaction overlapping or between the two submissions, and its nonce not passed by the state by then.
func diagnoseDuplicate(txs []*txInfo, ops []porcupine.Operation) string {
	for _, o := range ops {
		if o.Input.(cin).Kind == "flush" {
			return ""
		}
	}
	type iv struct{ call, ret int64 }
	acc := map[int][]iv{}
	for _, o := range ops {
		in, ou := o.Input.(cin), o.Output.(cout)
		if in.Kind == "submit" && ou.OK {
			acc[in.Tx] = append(acc[in.Tx], iv{o.Call, o.Return})
		}
	}
	for id, l := range acc {
		if len(l) < 2 {
			continue
		}
		lo, hi := l[0].call, l[0].ret
		for _, x := range l[:2] {
			if x.call < lo {
				lo = x.call
			}
			if x.ret > hi {
				hi = x.ret
			}
		}
		separated := false
		var nonces [4]uint64
		for _, o := range ops {
			in := o.Input.(cin)
			if in.Kind != "commit" {
				continue
			}
			if o.Call < hi {
				nonces = o.Output.(cout).Nonces
				if o.Return > lo {
					for _, b := range in.Block {
						if b == id {
							separated = true
						}
					}
				}
			}
		}
		if separated {
			continue
		}
		if txs != nil {
			if t := txs[id]; t.Acct >= 0 && t.Nonce < nonces[t.Acct] {
				continue
			}
		}
		return "duplicate-of-pooled-tx-accepted"
	}
	return ""
}

// ---- gemmill mempool ---------------------------------------------------------------

type mstate struct {
	n   uint8
	q   [64]uint8
	com bits
}

func memModel() porcupine.Model {
	return porcupine.Model{
		Init: func() interface{} { return mstate{} },
		Step: func(state, input, output interface{}) (bool, interface{}) {
			st, in, out := state.(mstate), input.(cin), output.(cout)
			switch in.Kind {
			case "submit":
				if !out.OK {
					return true, st
				}
				for i := 0; i < int(st.n); i++ {
					if int(st.q[i]) == in.Tx {
						return false, st
					}
				}
				if int(st.n) >= len(st.q) {
					return false, st
				}
				st.q[st.n] = uint8(in.Tx)
				st.n++
				return true, st
			case "reap":
				want := int(st.n)
				if in.N >= 0 && in.N < want {
					want = in.N
				}
				if len(out.List) != want {
					return false, st
				}
				for i, id := range out.List {
					if id != int(st.q[i]) || st.com.has(id) {
						return false, st
					}
				}
				return true, st
			case "commit":
				var nq [64]uint8
				k := 0
				for i := 0; i < int(st.n); i++ {
					in2 := false
					for _, id := range in.Block {
						if id == int(st.q[i]) {
							in2 = true
						}
					}
					if !in2 {
						nq[k] = st.q[i]
						k++
					}
				}
				st.q, st.n = nq, uint8(k)
				for _, id := range in.Block {
					st.com = st.com.with(id)
				}
				return true, st
			case "flush":
				st.q, st.n = [64]uint8{}, 0
				return true, st
			}
			return false, st
		},
	}
}

// yieldFilter is registered as the mempool's transaction filter, the place the application's
// CheckTx occupies in a node: it accepts everything after giving up the processor a few times.
type yieldFilter struct{}

func (yieldFilter) CheckTx(gtypes.Tx) (bool, error) {
	for i := 0; i < 4; i++ {
		runtime.Gosched()
	}
	return true, nil
}

type concMem struct {
	rep    report
	mp     *mempool.Mempool
	height int64
}

func (c *concMem) history(hid int64) {
	run := c.rep.run
	rng := lib.Rand("c19-conc-mem", hid)
	if left := c.mp.Reap(-1); len(left) > 0 {
		c.height++
		c.mp.Update(c.height, left)
	}
	scope := uint64(hid)<<4 | 0xc | uint64(lib.Seed())<<40
	var txs []*txInfo
	byKey := map[string]int{}
	mk := func() int {
		t := &txInfo{ID: len(txs), Kind: "mem", Bytes: memTx(scope, uint32(len(txs)))}
		txs = append(txs, t)
		byKey[string(t.Bytes)] = t.ID
		return t.ID
	}
	nsub := 3 + rng.Intn(2)
	lists := make([][]int, nsub)
	n := 6 + rng.Intn(9)
	keep := map[int]bool{} // duplicated transactions are kept out of blocks so that their second submission meets a pooled original
	for i := 0; i < n; i++ {
		id := mk()
		k := rng.Intn(nsub)
		lists[k] = append(lists[k], id)
		if rng.Intn(6) == 0 {
			keep[id] = true
			k = rng.Intn(nsub)
			lists[k] = append(lists[k], id)
		}
	}
	nForeign := rng.Intn(3)
	var foreign []int
	for i := 0; i < nForeign; i++ {
		foreign = append(foreign, mk())
	}
	// contested transactions: submitted by a client while a block that contains them (proposed by
	// another node) is being committed - what happens to a transaction this node is still receiving
	// by gossip when the block carrying it arrives
	var contested []int
	for i := 0; i < 1+rng.Intn(2); i++ {
		id := mk()
		contested = append(contested, id)
		k := rng.Intn(nsub)
		at := rng.Intn(len(lists[k]) + 1)
		lists[k] = append(lists[k][:at:at], append([]int{id}, lists[k][at:]...)...)
	}
	withFlush := rng.Intn(6) == 0
	rounds := 3 + rng.Intn(3)
	lims := make([]int, rounds)
	for i := range lims {
		lims[i] = []int{1, 2, 3, 5, -1, -1}[rng.Intn(6)]
	}
	rec := &recorder{}
	lookup := func(out []gtypes.Tx) []int {
		ids := make([]int, len(out))
		for i, b := range out {
			id, ok := byKey[string(b)]
			if !ok {
				id = -1
			}
			ids[i] = id
		}
		return ids
	}
	submit := func(client, id int) {
		rec.do(client, cin{Kind: "submit", Tx: id}, func() cout {
			if err := c.mp.ReceiveTx(gtypes.Tx(txs[id].Bytes)); err != nil {
				return cout{Err: errClass(err)}
			}
			return cout{OK: true}
		})
	}
	reapAs := func(client, n int, obs bool) []int {
		return rec.do(client, cin{Kind: "reap", N: n, Obs: obs}, func() cout { return cout{List: lookup(c.mp.Reap(n))} }).List
	}
	reap := func(client, n int) []int { return reapAs(client, n, false) }
	commit := func(client int, ids []int) {
		upd := make([]gtypes.Tx, len(ids))
		for i, id := range ids {
			upd[i] = gtypes.Tx(txs[id].Bytes)
		}
		rec.do(client, cin{Kind: "commit", Block: ids}, func() cout {
			c.height++
			c.mp.Update(c.height, upd)
			return cout{}
		})
	}
	var wg sync.WaitGroup
	for s := 0; s < nsub; s++ {
		wg.Add(1)
		go func(s int) {
			defer wg.Done()
			for _, id := range lists[s] {
				submit(s, id)
				runtime.Gosched()
			}
		}(s)
	}
	wg.Add(1)
	go func() {
		defer wg.Done()
		for r := 0; r < rounds; r++ {
			var ids []int
			for _, id := range dedupe(reap(nsub, lims[r])) {
				if !keep[id] {
					ids = append(ids, id)
				}
			}
			if r < len(foreign) {
				ids = append(ids, foreign[r])
			}
			if r < len(contested) {
				already := false
				for _, id := range ids {
					already = already || id == contested[r]
				}
				if !already {
					ids = append(ids, contested[r])
				}
			}
			commit(nsub, ids)
			runtime.Gosched()
		}
	}()
	wg.Add(1)
	go func() {
		defer wg.Done()
		for k := 0; k < 5; k++ {
			reapAs(nsub+1, -1, true)
			_ = c.mp.Size()
			if withFlush && k == 2 {
				rec.do(nsub+1, cin{Kind: "flush"}, func() cout { c.mp.Flush(); return cout{} })
			}
			runtime.Gosched()
		}
	}()
	wg.Wait()
	reap(nsub, -1)
	all := rec.sorted()
	ops := core(all)
	run.Count("conc_mem_histories", 1)
	run.Count("conc_mem_contested_txs", int64(len(contested)))
	run.Count("conc_mem_observer_reaps", int64(len(all)-len(ops)))
	run.Count("conc_mem_operations", int64(len(ops)))
	if withFlush {
		run.Count("conc_mem_histories_with_flush", 1)
	}
	run.Eval()
	overlap := countOverlaps(ops)
	run.Count("conc_mem_overlapping_pairs", int64(overlap))
	if overlap > 0 {
		run.Nontrivial("cmem:" + lib.Hash12(hid, len(ops), overlap))
	}
	trace := describe(txs, ops)
	res, _ := porcupine.CheckOperationsVerbose(memModel(), ops, porcupineTimeout)
	run.Count("porcupine_mem_"+strings.ToLower(string(res)), 1)
	if res == porcupine.Illegal {
		diag := diagnoseMem(ops)
		if diag == "" {
			diag = "unclassified"
		}
		key := "conc:mempool:not-linearizable:" + diag
		if withFlush {
			// Flush is not atomic with respect to ReceiveTx (which takes no mempool lock): one class, whatever the symptom
			key = "conc:mempool:not-linearizable:flush-overlapping-submissions"
		}
		c.rep.violation(key, "no sequential order of the recorded operations consistent with their call/return times is legal for the FIFO mempool model ("+diag+")", trace,
			map[string]interface{}{"history_id": fmt.Sprintf("conc-mem/%d", hid), "submitters": nsub, "with_flush": withFlush})
	}
	if res == porcupine.Ok {
		if r2, _ := porcupine.CheckOperationsVerbose(memModel(), all, porcupineTimeout); r2 == porcupine.Illegal {
			run.Count("mem_observer_reap_saw_inconsistent_snapshot", 1)
			if run.Get("mem_observer_reap_saw_inconsistent_snapshot") <= 2 {
				lib.WriteObservation(prop, fmt.Sprintf("observer-reap-inconsistent-conc-mem-%d", hid), map[string]interface{}{"history": describe(txs, all)})
			}
		}
	}
	if hid%53 == 0 {
		run.Sample(map[string]interface{}{"history": fmt.Sprintf("conc-mem/%d", hid), "porcupine": string(res), "trace": trace})
	}
}

func diagnoseMem(ops []porcupine.Operation) string {
	flushed := false
	for _, o := range ops {
		if o.Input.(cin).Kind == "flush" {
			flushed = true
		}
	}
	sfx := ""
	for _, o := range ops {
		in, ou := o.Input.(cin), o.Output.(cout)
		if in.Kind != "reap" {
			continue
		}
		seen := map[int]bool{}
		for _, id := range ou.List {
			if id < 0 {
				return "reap-of-unknown-bytes" + sfx
			}
			if seen[id] {
				return "same-tx-twice-in-one-reap" + sfx
			}
			seen[id] = true
		}
		for _, p := range ops {
			pin := p.Input.(cin)
			if pin.Kind == "commit" && p.Return < o.Call {
				for _, id := range pin.Block {
					if seen[id] {
						return "reoffer-after-commit-returned" + sfx
					}
				}
			}
		}
	}
	if d := diagnoseDuplicate(nil, ops); d != "" {
		return d
	}
	// a reap lists b before a although a's accepted submission returned before b's was called
	if !flushed {
		type iv struct{ call, ret int64 }
		sub := map[int]iv{}
		multi := map[int]bool{}
		for _, o := range ops {
			in, ou := o.Input.(cin), o.Output.(cout)
			if in.Kind == "submit" && ou.OK {
				if _, dup := sub[in.Tx]; dup {
					multi[in.Tx] = true
				}
				sub[in.Tx] = iv{o.Call, o.Return}
			}
		}
		for _, o := range ops {
			in, ou := o.Input.(cin), o.Output.(cout)
			if in.Kind != "reap" {
				continue
			}
			for i := range ou.List {
				for j := i + 1; j < len(ou.List); j++ {
					b, a := ou.List[i], ou.List[j]
					sa, oka := sub[a]
					sb, okb := sub[b]
					if oka && okb && !multi[a] && !multi[b] && sa.ret < sb.call {
						return "order-not-fifo"
					}
				}
			}
		}
	}
	// two reaps that order the same two transactions differently
	pos := map[[2]int]bool{}
	for _, o := range ops {
		in, ou := o.Input.(cin), o.Output.(cout)
		if in.Kind != "reap" {
			continue
		}
		for i := range ou.List {
			for j := i + 1; j < len(ou.List); j++ {
				if pos[[2]int{ou.List[j], ou.List[i]}] && !flushed {
					return "order-differs-between-reaps"
				}
				pos[[2]int{ou.List[i], ou.List[j]}] = true
			}
		}
	}
	// an accepted, never committed transaction whose submission returned before the last reap was called is missing there
	if !flushed {
		last := ops[len(ops)-1]
		if last.Input.(cin).Kind == "reap" {
			in := map[int]bool{}
			for _, id := range last.Output.(cout).List {
				in[id] = true
			}
			com := map[int]bool{}
			for _, p := range ops {
				if p.Input.(cin).Kind == "commit" {
					for _, id := range p.Input.(cin).Block {
						com[id] = true
					}
				}
			}
			for _, p := range ops {
				pin, pou := p.Input.(cin), p.Output.(cout)
				if pin.Kind == "submit" && pou.OK && p.Return < last.Call && !com[pin.Tx] && !in[pin.Tx] {
					return "accepted-tx-lost"
				}
			}
		}
	}
	return ""
}

var _ = rand.Int
