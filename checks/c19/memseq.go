package main

// Sequential histories against gemmill/mempool.Mempool with a FIFO reference model.

import (
	"encoding/binary"
	"fmt"
	"math/rand"
	"strings"

	"github.com/spf13/viper"

	"github.com/dappledger/AnnChain/gemmill/mempool"
	gtypes "github.com/dappledger/AnnChain/gemmill/types"

	"verif/lib"
)

func newMempool(blockSize int, limits bool) *mempool.Mempool {
	c := viper.New()
	c.Set("block_size", blockSize)
	c.Set("mempool_enable_txs_limits", limits)
	c.Set("mempool_wal_dir", "")
	return mempool.NewMempool(c)
}

func memTx(scope uint64, salt uint32) []byte {
	b := make([]byte, 16)
	copy(b, "c19m")
	binary.BigEndian.PutUint64(b[4:], scope)
	binary.BigEndian.PutUint32(b[12:], salt)
	return b
}

type memSeq struct {
	rep     report
	mp      *mempool.Mempool
	limits  bool
	txLimit int
	height  int64
	log     *inputsLog
}

type memHist struct {
	w      *memSeq
	id     string
	scope  uint64
	rng    *rand.Rand
	bytes  [][]byte
	status []int
	reacc  []bool
	rep    []bool
	byKey  map[string]int
	queue  []int // model: accepted transactions in acceptance order
	trace  []string
	last   []int
	keys   map[string]bool
	nAcc   int
	nCom   int
}

func (h *memHist) tr(format string, a ...interface{}) {
	s := fmt.Sprintf(format, a...)
	h.trace = append(h.trace, s)
	h.w.log.line(s)
}

func (h *memHist) violate(key, what string) {
	if h.keys[key] {
		return
	}
	h.keys[key] = true
	h.w.rep.violation(key, what, append([]string{}, h.trace...), map[string]interface{}{
		"history_id": h.id, "limits_enabled": h.w.limits, "txLimit": h.w.txLimit})
}

func (h *memHist) name(ids []int) string {
	p := make([]string, len(ids))
	for i, id := range ids {
		if id < 0 {
			p[i] = "?"
		} else {
			p[i] = fmt.Sprintf("t%d", id)
		}
	}
	return "[" + strings.Join(p, " ") + "]"
}

func (h *memHist) newTx() int {
	id := len(h.bytes)
	b := memTx(h.scope, uint32(id))
	h.bytes = append(h.bytes, b)
	h.status = append(h.status, stNone)
	h.reacc = append(h.reacc, false)
	h.rep = append(h.rep, false)
	h.byKey[string(b)] = id
	return id
}

func (h *memHist) inQueue(id int) bool {
	for _, q := range h.queue {
		if q == id {
			return true
		}
	}
	return false
}

func (h *memHist) submit(id int, how string) {
	run := h.w.rep.run
	err := h.w.mp.ReceiveTx(gtypes.Tx(h.bytes[id]))
	cls := errClass(err)
	h.tr("submit t%d (%s) -> %s", id, how, cls)
	run.Count("mem_submissions", 1)
	run.Count("mem_submit_"+how, 1)
	run.Count("mem_submit_result_"+cls, 1)
	if err == nil {
		h.nAcc++
		if h.inQueue(id) {
			h.violate("mempool:duplicate-accepted", fmt.Sprintf("t%d is still in the mempool and the same bytes were accepted again", id))
		} else {
			h.queue = append(h.queue, id)
		}
		if h.status[id] == stCommitted {
			h.reacc[id] = true
			run.Count("mem_committed_tx_reaccepted", 1)
		} else {
			h.status[id] = stLive
		}
	} else if h.inQueue(id) {
		run.Count("mem_duplicates_of_pooled_tx_rejected", 1)
	}
	h.bound("submit")
}

func (h *memHist) bound(op string) {
	size := h.w.mp.Size()
	h.w.rep.run.Count("mem_bound_checks", 1)
	if size != len(h.queue) {
		// not a clause of the property by itself; the Reap comparison below decides
		h.w.rep.run.Count("mem_size_differs_from_model", 1)
	}
	if h.w.limits && size > h.w.txLimit {
		h.tr("  !! Size() %d > txLimit %d", size, h.w.txLimit)
		h.violate("bound:mempool:Size()>txLimit", fmt.Sprintf("mempool_enable_txs_limits is on, txLimit = %d, Size() = %d after %s (ReceiveTx rejects only when Len() > txLimit)", h.w.txLimit, size, op))
	}
}

func (h *memHist) reap(n int, why string) []int {
	run := h.w.rep.run
	out := h.w.mp.Reap(n)
	ids := make([]int, len(out))
	for i, b := range out {
		id, ok := h.byKey[string(b)]
		if !ok {
			id = -1
		}
		ids[i] = id
	}
	h.tr("reap(%d)%s -> %s", n, why, h.name(ids))
	run.Count("mem_reaps", 1)
	run.Count("mem_offered_txs", int64(len(ids)))
	want := len(h.queue)
	if n >= 0 && n < want {
		want = n
	}
	seen := map[int]bool{}
	bad := false
	for _, id := range ids {
		if id < 0 {
			run.Inconclusive("mempool Reap returned unknown bytes")
			continue
		}
		if seen[id] {
			h.violate("mempool:dup:same-tx-twice-in-one-reap", fmt.Sprintf("t%d appears twice in one Reap output", id))
			bad = true
		}
		seen[id] = true
		if h.status[id] == stCommitted {
			if !h.rep[id] {
				h.rep[id] = true
				how := "still-listed-after-Update"
				if h.reacc[id] {
					how = "reaccepted-after-commit"
				}
				h.violate("reoffer:mempool:committed-tx-"+how, fmt.Sprintf("t%d was contained in a committed block and is offered again by Reap (%s)", id, how))
			}
		}
	}
	if bad {
		return ids
	}
	// order and no loss: exactly the first `want` accepted transactions, in acceptance order
	if len(ids) != want {
		if len(ids) > want && n >= 0 && len(ids) > n {
			h.violate("mempool:reap:more-than-limit", fmt.Sprintf("Reap(%d) returned %d", n, len(ids)))
		} else if len(ids) < want {
			h.violate("mempool:drop:accepted-tx-not-offered", fmt.Sprintf("the model holds %s, Reap(%d) returned %s", h.name(h.queue), n, h.name(ids)))
		} else {
			h.violate("mempool:offer-of-tx-not-in-pool", fmt.Sprintf("the model holds %s, Reap(%d) returned %s", h.name(h.queue), n, h.name(ids)))
		}
	} else {
		for i := range ids {
			if ids[i] != h.queue[i] {
				h.violate("mempool:order:not-fifo", fmt.Sprintf("accepted order %s, Reap(%d) returned %s", h.name(h.queue), n, h.name(ids)))
				break
			}
		}
	}
	h.last = ids
	return ids
}

func (h *memHist) commit(ids []int, how string) {
	txs := make([]gtypes.Tx, len(ids))
	in := map[int]bool{}
	for i, id := range ids {
		txs[i] = gtypes.Tx(h.bytes[id])
		in[id] = true
		h.status[id] = stCommitted
		h.reacc[id] = false
		h.rep[id] = false
	}
	h.w.height++
	h.w.mp.Update(h.w.height, txs)
	var q []int
	for _, id := range h.queue {
		if !in[id] {
			q = append(q, id)
		}
	}
	h.queue = q
	h.nCom += len(ids)
	h.tr("commit h=%d (%s) block=%s", h.w.height, how, h.name(ids))
	h.w.rep.run.Count("mem_commits", 1)
	h.w.rep.run.Count("mem_committed_txs", int64(len(ids)))
	h.bound("commit")
	h.reap(-1, " (after commit)")
}

func (h *memHist) flush() {
	h.w.mp.Flush()
	for _, id := range h.queue {
		if h.status[id] == stLive {
			h.status[id] = stFlushed
		}
	}
	h.queue = nil
	h.tr("flush")
	h.w.rep.run.Count("mem_flushes", 1)
	h.bound("flush")
	h.reap(-1, " (after flush)")
}

func (w *memSeq) history(hid int64) {
	run := w.rep.run
	rng := lib.Rand(fmt.Sprintf("c19-mem-%v-%d", w.limits, w.txLimit), hid)
	h := &memHist{w: w, id: fmt.Sprintf("mem/limits=%v/%d", w.limits, hid), scope: uint64(hid)<<1 | uint64(lib.Seed())<<40, rng: rng, byKey: map[string]int{}, keys: map[string]bool{}}
	if w.limits {
		h.scope |= 1
	}
	w.log.reset("history " + h.id)
	// empty the pool of the previous history by committing what it holds (Flush would reallocate the 100 000 entry cache)
	if left := w.mp.Reap(-1); len(left) > 0 {
		w.height++
		w.mp.Update(w.height, left)
	}
	h.tr("history %s: limits enabled %v, txLimit %d", h.id, w.limits, w.txLimit)
	nops := 15 + rng.Intn(30)
	flood := w.limits && rng.Intn(5) == 0
	for i := 0; i < nops; i++ {
		k := rng.Intn(100)
		switch {
		case flood && i < w.txLimit+3:
			h.submit(h.newTx(), "new")
		case k < 40:
			h.submit(h.newTx(), "new")
		case k < 52:
			if len(h.bytes) == 0 {
				continue
			}
			id := rng.Intn(len(h.bytes))
			h.submit(id, "dup-of-"+statusWord(h.status[id]))
		case k < 72:
			lims := []int{0, 1, 2, 3, -1, 1000}
			h.reap(lims[rng.Intn(len(lims))], "")
		case k < 97:
			last := dedupe(h.last)
			var ids []int
			how := "all"
			switch m := rng.Intn(8); {
			case m < 3:
				ids = last
			case m < 5:
				ids, how = last[:rng.Intn(len(last)+1)], "prefix"
			case m < 7:
				how = "subset"
				for _, id := range last {
					if rng.Intn(2) == 0 {
						ids = append(ids, id)
					}
				}
			default:
				how = "empty"
			}
			if rng.Intn(6) == 0 {
				ids = append(ids, h.newTx()) // another proposer's transaction, never submitted here
				how += "+foreign"
			}
			h.commit(ids, how)
		default:
			if rng.Intn(4) == 0 { // rare: Flush reallocates the duplicate cache
				h.flush()
			}
		}
	}
	h.commit(dedupe(h.reap(-1, "")), "all")
	run.Count("histories_mem_seq", 1)
	run.Eval()
	if h.nAcc > 0 && h.nCom > 0 {
		run.Nontrivial("mem:" + lib.Hash12(strings.Join(h.trace[1:], "\n")))
	}
	if hid%211 == 0 {
		run.Sample(map[string]interface{}{"history": h.id, "trace": h.trace})
	}
}
