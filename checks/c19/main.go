// C19 — transaction pool: per-account nonce order, no duplicates, no loss, bounded.
//
// Runtime monitoring of the real pools through their client boundary:
//
//	(1) sequential histories on the pool of a real EVMApp (engine E4) against a
//	    reference model: accounts -> state nonce, accepted txs, committed set;
//	(2) concurrent histories (submitters against the commit path) recorded with
//	    call/return stamps and checked with porcupine; the same under -race;
//	(3) both again, with a FIFO model, for gemmill/mempool.Mempool;
//	(4) eviction: one pass of the loop body through the verif hook (quick), the
//	    real one-minute ticker with a shortened lifetime (thorough).
//
// Commits run in production order: OnExecute, pool.Update(height, txs), OnCommit
// (-> updateToState), as state.ApplyBlock / CommitStateUpdateMempool do.
package main

import (
	"fmt"
	"io/ioutil"
	"os"
	"path/filepath"
	"regexp"
	"runtime"
	"strconv"
	"strings"
	"sync"
	"time"

	"github.com/dappledger/AnnChain/chain/app/evm"

	"verif/evmdrive"
	"verif/lib"
)

func main() {
	if len(os.Args) > 1 {
		switch os.Args[1] {
		case "worker":
			seqWorker(os.Args[2:])
			return
		case "conc":
			concChild(os.Args[2:])
			return
		case "ticker":
			tickerChild(os.Args[2:])
			return
		}
	}
	parent()
}

// ---- sizes ------------------------------------------------------------------------

func seqWorkers() int   { return lib.Pick(4, 12) }
func evmSeqTotal() int  { return lib.Pick(2000, 150000) }
func memSeqTotal() int  { return lib.Pick(2000, 150000) }
func concPlainEvm() int { return lib.Pick(240, 4000) }
func concPlainMem() int { return lib.Pick(300, 4000) }
func concRaceEvm() int  { return lib.Pick(100, 600) }
func concRaceMem() int  { return lib.Pick(100, 600) }
func concChildren() int { return lib.Pick(1, 4) }
func watchdog() time.Duration {
	return time.Duration(lib.Pick(12, 50)) * time.Minute
}

// ---- parent -----------------------------------------------------------------------

func parent() {
	run := lib.NewRun(prop, "exploration")
	run.SetRule("fixed lists of histories from VERIF_SEED/tier. Sequential EVM-pool history: 2-4 fresh accounts, 15-70 operations drawn by shape-specific weights " +
		"(submit at the state nonce / next / gapped / stale / same-nonce replacement / exact duplicate / will-execute-as-invalid / admin-tagged / admin duplicate, Reap with limit 0,1,2,n,-1,large, " +
		"commit of all / a prefix / any subset / nothing of the last Reap, optionally plus a foreign or an unreaped transaction, Flush, one eviction pass, observers), pools with limits 10 and 30; " +
		"sequential mempool history: 15-45 operations with and without the configured size limit; concurrent history: 3-4 submitter goroutines, the commit path and an RPC-side observer " +
		"(plus the gossip reader and Flush in some), checked with porcupine and, in the -race build, by the race detector. A history is non-trivial when a transaction was accepted and a non-empty block committed " +
		"(concurrent: when operations of different clients overlapped); distinct = distinct operation traces")
	run.Assume("the account's current nonce is what the application's Query(nonce) returns after the commit; how a block executes (valid/invalid lists) is taken from OnExecute (C09 judges execution)",
		"one pass of the eviction loop body through VerifEvictOnce with the lifetime set below zero stands for 'every heartbeat expired'; the thorough tier compares it with the real ticker",
		"porcupine's verdict on a recorded history: Ok / Illegal are decisive, Unknown (timeout) is inconclusive",
		"a transaction 'contained in a committed block' includes those the block executed as invalid (the statement does not distinguish)")

	var wg sync.WaitGroup
	t0 := time.Now()
	stageDone := func(name string) {
		fmt.Printf("stage %-12s finished after %.0fs (wall, informational)\n", name, time.Since(t0).Seconds())
	}
	wg.Add(1)
	go func() {
		defer wg.Done()
		defer stageDone("sequential")
		run.RunWorkers(seqWorkers(), watchdog(), nil, func(i int, output string) {
			site := panicSite(output)
			run.Violation("panic:"+site, "a sequential-history worker died while driving the pool: "+firstLine(output, "panic:"), map[string]interface{}{"worker": i, "output_tail": output})
		})
	}()
	scratch := lib.Scratch(prop + "-conc")
	defer os.RemoveAll(scratch)
	for k := 0; k < concChildren(); k++ {
		wg.Add(2)
		go func(k int) {
			defer wg.Done()
			defer stageDone(fmt.Sprintf("conc-plain%d", k))
			concStage(run, scratch, k, false)
		}(k)
		go func(k int) {
			defer wg.Done()
			defer stageDone(fmt.Sprintf("conc-race%d", k))
			concStage(run, scratch, k, true)
		}(k)
	}
	if lib.Thorough() {
		wg.Add(1)
		go func() {
			defer wg.Done()
			tickerStage(run, scratch)
		}()
	}
	wg.Wait()

	run.Require("histories_evm_seq", int64(evmSeqTotal()))
	run.Require("histories_mem_seq", int64(memSeqTotal()))
	run.Require("commits", int64(evmSeqTotal()))
	run.Require("committed_txs_valid", int64(evmSeqTotal()))
	run.Require("committed_txs_invalid", int64(evmSeqTotal()/50))
	run.Require("quiescent_points", int64(evmSeqTotal()))
	run.Require("no_loss_obligations_checked", int64(evmSeqTotal()))
	run.Require("duplicates_of_pooled_tx_rejected", int64(evmSeqTotal()/20))
	run.Require("evictions", int64(evmSeqTotal()/20))
	run.Require("flushes", int64(evmSeqTotal()/100))
	run.Require("histories_promotion_at_capacity", int64(evmSeqTotal()/40))
	run.Require("histories_gap_filler_at_waiting_capacity", int64(evmSeqTotal()/40))
	run.Require("histories_reaching_capacity", int64(evmSeqTotal()/50))
	run.Require("submit_admin", int64(evmSeqTotal()/10))
	run.Require("mem_commits", int64(memSeqTotal()))
	run.Require("mem_duplicates_of_pooled_tx_rejected", int64(memSeqTotal()/20))
	run.Require("porcupine_evm_ok", int64((concPlainEvm()+concRaceEvm())*concChildren()*8/10))
	run.Require("porcupine_mem_ok", int64((concPlainMem()+concRaceMem())*concChildren()*8/10))
	run.Require("conc_evm_overlapping_pairs", int64(concPlainEvm()))
	run.Require("conc_mem_overlapping_pairs", int64(concPlainMem()))
	run.Require("race_children_completed", int64(concChildren()))
	if lib.Thorough() {
		run.Require("ticker_eviction_observed", 1)
	}
	os.RemoveAll(scratch)
	os.Exit(run.Finish())
}

func firstLine(s, marker string) string {
	for _, l := range strings.Split(s, "\n") {
		if strings.Contains(l, marker) {
			return strings.TrimSpace(l)
		}
	}
	return lib.Hash12(s)
}

var frameRe = regexp.MustCompile(`^(github\.com/dappledger/AnnChain/[^\s(]+(?:\([^)]*\))?[^\s(]*)\(`)

func panicSite(output string) string {
	i := strings.Index(output, "panic:")
	if i < 0 {
		i = strings.Index(output, "fatal error:")
	}
	if i < 0 {
		return "worker-died-without-panic"
	}
	for _, l := range strings.Split(output[i:], "\n") {
		if m := frameRe.FindStringSubmatch(strings.TrimSpace(l)); m != nil {
			return strings.TrimPrefix(m[1], "github.com/dappledger/AnnChain/")
		}
	}
	return "unknown-site"
}

// ---- sequential worker ------------------------------------------------------------

func seqWorker(args []string) {
	wid, _ := strconv.Atoi(args[0])
	nw, _ := strconv.Atoi(args[1])
	out := args[2]
	runtime.GOMAXPROCS(1)
	evmdrive.Quiet()
	evm.VerifSetValidateRoutines(2)
	run := lib.NewChildRun(prop)
	rep := report{run}
	log := openInputs(out + ".inputs")
	dir := filepath.Join(filepath.Dir(out), fmt.Sprintf("w%d-data", wid)) // inside the parent's scratch: removed there even if this process dies
	defer os.RemoveAll(dir)
	var pools []*evmSeq
	for _, bs := range []int{1, 3} {
		w, err := openEvmSeq(rep, filepath.Join(dir, fmt.Sprintf("bs%d", bs)), bs, wid, log)
		if err != nil {
			run.Inconclusive("cannot open the EVM application: " + err.Error())
			run.MarkComplete()
			run.ExportTo(out)
			return
		}
		pools = append(pools, w)
	}
	total := evmSeqTotal()
	done := 0
	for hid := wid; hid < total; hid += nw {
		w := pools[0]
		if hid%3 == 2 {
			w = pools[1]
		}
		w.history(int64(hid), hid/nw)
		done++
		if done%500 == 0 {
			run.ExportTo(out)
		}
	}
	for _, w := range pools {
		w.app.Close()
	}
	mems := []*memSeq{
		{rep: rep, mp: newMempool(4, true), limits: true, txLimit: 8, log: log},
		{rep: rep, mp: newMempool(4, false), limits: false, txLimit: 8, log: log},
	}
	mtotal := memSeqTotal()
	for hid := wid; hid < mtotal; hid += nw {
		mems[(hid/nw)%2].history(int64(hid))
	}
	run.MarkComplete()
	if err := run.ExportTo(out); err != nil {
		fmt.Println("export:", err)
		os.Exit(5)
	}
}

// ---- concurrent child ---------------------------------------------------------------

func concChild(args []string) {
	out := args[0]
	first, _ := strconv.Atoi(args[1])
	nEvm, _ := strconv.Atoi(args[2])
	nMem, _ := strconv.Atoi(args[3])
	runtime.GOMAXPROCS(4)
	evmdrive.Quiet()
	evm.VerifSetValidateRoutines(2)
	run := lib.NewChildRun(prop)
	rep := report{run}
	dir := out + ".data" // inside the parent's scratch
	defer os.RemoveAll(dir)
	app, err := evmdrive.Open(dir, 5)
	if err != nil {
		run.Inconclusive("cannot open the EVM application: " + err.Error())
	} else {
		c := &concEvm{rep: rep, app: app, pool: app.GetTxPool(), lim: app.VerifPoolCounts().PendingLimit}
		for i := 0; i < nEvm; i++ {
			c.history(int64(first + i))
		}
	}
	m := &concMem{rep: rep, mp: newMempool(100, false)}
	m.mp.RegisterFilter(yieldFilter{})
	for i := 0; i < nMem; i++ {
		m.history(int64(first + i))
	}
	run.MarkComplete()
	if err := run.ExportTo(out); err != nil {
		fmt.Println("export:", err)
		os.Exit(5)
	}
	fmt.Println("CONC-CHILD-DONE")
}

func concStage(run *lib.Run, scratch string, k int, race bool) {
	bin := os.Getenv("VERIF_SELF")
	nEvm, nMem := concPlainEvm(), concPlainMem()
	tag := fmt.Sprintf("plain%d", k)
	first := k * 1000003
	var env []string
	if race {
		bin = os.Getenv("VERIF_RACE_BIN")
		if bin == "" {
			run.Inconclusive("VERIF_RACE_BIN not set: the -race child was not run (start through ./check)")
			return
		}
		nEvm, nMem = concRaceEvm(), concRaceMem()
		tag = fmt.Sprintf("race%d", k)
		first += 500000
		env = []string{"GORACE=halt_on_error=0 exitcode=0 history_size=3 log_path=" + filepath.Join(scratch, tag+".racelog")}
	}
	if bin == "" {
		bin, _ = os.Executable()
	}
	out := filepath.Join(scratch, tag+".json")
	var output string
	for attempt := 0; attempt < 2; attempt++ {
		var timedOut bool
		output, timedOut, _ = lib.RunCmd(watchdog()*time.Duration(attempt+1), filepath.Join(scratch, tag+".log"), env, bin,
			"conc", out, strconv.Itoa(first), strconv.Itoa(nEvm), strconv.Itoa(nMem))
		if !timedOut {
			break
		}
		if attempt == 1 {
			run.Inconclusive("concurrent-history child " + tag + " hit its wall-clock watchdog twice")
			return
		}
	}
	if err := run.Import(out); err != nil || !strings.Contains(output, "CONC-CHILD-DONE") {
		if strings.Contains(output, "panic:") || strings.Contains(output, "fatal error:") {
			run.Violation("panic:"+panicSite(output), "a concurrent-history child died while driving the pools: "+firstLine(output, "panic:"), map[string]interface{}{"child": tag, "output_tail": tailStr(output, 8000)})
		} else {
			run.Inconclusive("concurrent-history child " + tag + " did not finish: " + tailStr(output, 400))
		}
		return
	}
	if !race {
		return
	}
	run.Count("race_children_completed", 1)
	files, _ := filepath.Glob(filepath.Join(scratch, tag+".racelog*"))
	var log string
	for _, f := range files {
		b, _ := ioutil.ReadFile(f)
		log += string(b) + "\n"
	}
	raceVerdicts(run, log)
}

func tailStr(s string, n int) string {
	if len(s) > n {
		return s[len(s)-n:]
	}
	return s
}

// ---- race reports ------------------------------------------------------------------

type raceFrame struct {
	Func string `json:"func"`
	File string `json:"file"`
}

type raceAccess struct {
	Kind   string      `json:"kind"`
	Frames []raceFrame `json:"frames"`
}

var accessRe = regexp.MustCompile(`^(Read|Write|Previous read|Previous write|Atomic read|Atomic write|Previous atomic read|Previous atomic write) at 0x[0-9a-f]+ by `)

func parseRaceLog(log string) [][]raceAccess {
	var out [][]raceAccess
	for _, blk := range strings.Split(log, "==================") {
		if !strings.Contains(blk, "WARNING: DATA RACE") {
			continue
		}
		var acc []raceAccess
		cur := -1
		lines := strings.Split(blk, "\n")
		for i := 0; i < len(lines); i++ {
			l := lines[i]
			if m := accessRe.FindStringSubmatch(l); m != nil {
				k := "read"
				if strings.Contains(strings.ToLower(m[1]), "write") {
					k = "write"
				}
				acc = append(acc, raceAccess{Kind: k})
				cur = len(acc) - 1
				continue
			}
			if strings.HasPrefix(l, "Goroutine ") || strings.TrimSpace(l) == "" {
				cur = -1
				continue
			}
			if cur >= 0 && strings.HasPrefix(l, "  ") && !strings.HasPrefix(l, "   ") {
				f := strings.TrimSpace(l)
				if j := strings.LastIndex(f, "("); j > 0 {
					f = f[:j]
				}
				file := ""
				if i+1 < len(lines) && strings.HasPrefix(lines[i+1], "      ") {
					file = strings.TrimSpace(lines[i+1])
					if j := strings.Index(file, " "); j > 0 {
						file = file[:j]
					}
					i++
				}
				acc[cur].Frames = append(acc[cur].Frames, raceFrame{Func: f, File: file})
			}
		}
		if len(acc) >= 2 {
			out = append(out, acc[:2])
		}
	}
	return out
}

var poolFiles = []string{"chain/app/evm/tx_pool.go", "chain/app/evm/tx_sort.go", "gemmill/mempool/mempool.go", "go-clist/clist.go"}

// poolFrame: the racing access itself (innermost frame that is not runtime / sync internals) must be in one of
// the pool's files; a pool function further up the stack does not make the raced location pool state.
func poolFrame(a raceAccess) (string, bool) {
	for _, f := range a.Frames {
		if strings.HasPrefix(f.Func, "runtime.") || strings.HasPrefix(f.Func, "sync.") || strings.HasPrefix(f.Func, "sync/atomic.") || strings.HasPrefix(f.Func, "internal/") {
			continue
		}
		for _, p := range poolFiles {
			if strings.Contains(f.File, p+":") {
				fn := f.Func
				if j := strings.Index(fn, "AnnChain/"); j >= 0 {
					fn = fn[j+len("AnnChain/"):]
				}
				return fn, true
			}
		}
		return "", false
	}
	return "", false
}

func outerRepoFrame(a raceAccess) string {
	for _, f := range a.Frames {
		if strings.Contains(f.Func, "dappledger/AnnChain/") {
			return f.Func[strings.Index(f.Func, "AnnChain/")+len("AnnChain/"):]
		}
	}
	if len(a.Frames) > 0 {
		return a.Frames[0].Func
	}
	return "?"
}

func raceVerdicts(run *lib.Run, log string) {
	run.Count("race_warning_blocks", int64(strings.Count(log, "WARNING: DATA RACE")))
	seen := map[string]bool{}
	for _, acc := range parseRaceLog(log) {
		run.Count("race_reports_parsed", 1)
		fa, oka := poolFrame(acc[0])
		fb, okb := poolFrame(acc[1])
		if !oka && !okb {
			a, b := outerRepoFrame(acc[0]), outerRepoFrame(acc[1])
			repo := false
			for _, x := range append(acc[0].Frames, acc[1].Frames...) {
				if strings.Contains(x.Func, "dappledger/AnnChain/") {
					repo = true
				}
			}
			if !repo {
				run.Count("race_reports_harness_only", 1)
				run.Inconclusive("the race detector reported a race inside the harness: " + a + " / " + b)
				continue
			}
			// racing location is not pool state: counted and kept as an observation, not judged by this property
			run.Count("race_reports_outside_pool_files", 1)
			run.Distinct("race_outside_pool", a+" | "+b)
			lib.WriteObservation(prop, "race-outside-pool-"+lib.Hash12(a, b), acc)
			continue
		}
		if !oka {
			fa = outerRepoFrame(acc[0])
		}
		if !okb {
			fb = outerRepoFrame(acc[1])
		}
		pa, pb := acc[0].Kind+" "+fa, acc[1].Kind+" "+fb
		if pb < pa {
			pa, pb = pb, pa
		}
		key := "race:" + pa + " | " + pb
		run.Distinct("race_classes", key)
		if seen[key] {
			continue
		}
		seen[key] = true
		run.Violation(key, "data race on pool state between "+pa+" and "+pb+" (concurrent submitters / commit path / observer / gossip reader)",
			map[string]interface{}{"access_1": acc[0], "access_2": acc[1]})
	}
}

// ---- eviction through the real ticker (thorough) ----------------------------------

func tickerStage(run *lib.Run, scratch string) {
	out := filepath.Join(scratch, "ticker.json")
	output, timedOut, _ := lib.RunCmd(4*time.Minute, filepath.Join(scratch, "ticker.log"), nil, os.Getenv("VERIF_SELF"), "ticker", out)
	if timedOut {
		run.Inconclusive("the ticker child hit its watchdog")
		return
	}
	if err := run.Import(out); err != nil {
		run.Inconclusive("the ticker child did not finish: " + tailStr(output, 400))
	}
}

func tickerChild(args []string) {
	out := args[0]
	evmdrive.Quiet()
	run := lib.NewChildRun(prop)
	rep := report{run}
	dir := out + ".data"
	defer os.RemoveAll(dir)
	w, err := openEvmSeq(rep, dir, 3, 99, &inputsLog{})
	if err != nil {
		run.Inconclusive("cannot open the EVM application: " + err.Error())
		run.MarkComplete()
		run.ExportTo(out)
		return
	}
	scenario := func(hid int64, real bool) (evm.VerifPoolCounts, bool) {
		h := &evmHist{w: w, id: fmt.Sprintf("evm/ticker/%d", hid), scope: uint64(hid)<<8 | 0xee, shape: "ticker", rng: lib.Rand("c19-ticker", hid), byKey: map[string]int{}, keys: map[string]bool{}}
		w.pool.Flush()
		for i := 0; i < 3; i++ {
			h.accts = append(h.accts, newAccount(fmt.Sprintf("c19t-%d-%d-%d", lib.Seed(), hid, i)))
		}
		h.tr("history %s: a: nonce 0 pending, 1 and 2 behind it; b: only a gapped nonce 3; c: nonce 0", h.id)
		a0 := h.newTx(0, 0, kNormal)
		h.submit(a0, "head")
		h.submit(h.newTx(0, 1, kNormal), "next")
		h.submit(h.newTx(0, 2, kNormal), "next")
		h.submit(h.newTx(1, 3, kNormal), "gap")
		c0 := h.newTx(2, 0, kNormal)
		h.submit(c0, "head")
		before := w.app.VerifPoolCounts()
		h.evictModel()
		ok := true
		if real {
			w.app.VerifSetWaitingLifetime(time.Nanosecond)
			h.tr("waiting for the pool's own eviction ticker (lifetime shortened to 1ns)")
			ok = false
			for i := 0; i < 160; i++ { // watchdog only: the ticker fires once a minute
				time.Sleep(500 * time.Millisecond)
				if c := w.app.VerifPoolCounts(); c.Waiting != before.Waiting {
					ok = true
					break
				}
			}
			w.app.VerifSetWaitingLifetime(10 * time.Minute)
		} else {
			w.app.VerifSetWaitingLifetime(-1)
			w.app.VerifEvictOnce()
			w.app.VerifSetWaitingLifetime(10 * time.Minute)
			h.tr("evict (one pass of the eviction loop through the hook)")
		}
		after := w.app.VerifPoolCounts()
		if !ok {
			return after, false
		}
		h.bounds("evict", "")
		h.commit([]int{a0.ID, c0.ID}, "all")
		return after, true
	}
	hook, _ := scenario(1, false)
	tick, ok := scenario(2, true)
	if !ok {
		run.Inconclusive("the eviction ticker did not change the waiting queue within 80 s")
	} else {
		run.Count("ticker_eviction_observed", 1)
		if hook.Waiting != tick.Waiting || hook.All != tick.All || hook.Pending != tick.Pending {
			run.Inconclusive(fmt.Sprintf("VerifEvictOnce and the real eviction loop left different pools: hook %+v ticker %+v", hook, tick))
		} else {
			run.Count("ticker_matches_hook", 1)
		}
	}
	w.app.Close()
	run.MarkComplete()
	run.ExportTo(out)
}
