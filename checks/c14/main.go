// C14 — validator-set changes need +2/3 of distinct validators and apply uniformly.
//
// The real plugin.AdminOp is driven the way production reaches it: a signed EVM
// transaction (to the Admin contract 0x02000000 or straight to the precompile
// 0xfe) executed by the real EVM, whose 0xfe precompile calls back into
// plugin.ExecTX (what Node.ExecAdminTx/Angine.ExecAdminTx do), followed by the
// plugin's EndBlock on a copy of the validator set, as State.ExecBlock does.
// An independent oracle (oracle.go) says for every request whether it may change
// the set and what the next set is; three replicas (continuous, restarted
// between blocks, late catch-up) must report the same set at every height.
package main

import (
	"encoding/hex"
	"fmt"
	"os"
	"path/filepath"
	"regexp"
	"sort"
	"strconv"
	"strings"
	"time"

	"verif/evmdrive"
	"verif/lib"
)

const prop = "C14"

var run *lib.Run
var isChild bool

func viol(key, what string, witness interface{}) {
	if isChild {
		run.ChildViolation(key, what, witness)
	} else {
		run.Violation(key, what, witness)
	}
}

type sizes struct {
	evmCases, appCases, workers int
}

func tierSizes() sizes {
	if lib.Thorough() {
		return sizes{evmCases: 120000, appCases: 240, workers: 16}
	}
	return sizes{evmCases: 1400, appCases: 6, workers: 8}
}

func main() {
	evmdrive.Quiet()
	if len(os.Args) >= 5 && os.Args[1] == "worker" {
		worker()
		return
	}
	run = lib.NewRun(prop, "exploration")
	sz := tierSizes()
	run.SetRule("case = PRNG(VERIF_SEED, path, index): validator set of 1-7 (unit/small/skewed/huge total>2^62/equal thirds/zero-power members), " +
		"1-6 blocks of 0-3 admin transactions drawn from plans {valid, undersigned(15 signature-list shapes), binding(stale/future/wrap/other addr/other from), " +
		"replay by same/other account/raw, unknown cmd, no-op, update of non-member, bad self-signature} plus scripted replay and re-order scenarios; " +
		"a request is non-trivial/distinct by (plan, list shape, binding, command, route, power mode, set size, oracle verdict)")
	run.Assume("the harness performs State.ExecBlock's steps around the plugin (Copy, Copy, BeginBlock, txs, EndBlock(next), IncrementAccum(1)) instead of running state.State",
		"path evm: core.ApplyTransaction on an in-memory state from core.DefaultGenesis() (what EVMApp.executeOriginTx does); path app: the full EVMApp via evmdrive",
		"the oracle trusts crypto/ed25519, encoding/json and math/big of the Go standard library and the Admin contract's msg.sender prefix (observed: plugin's From())",
		"requests are judged against the set in force for the block and applied in block order (add/update set the power, remove deletes), as the plugin documents")
	run.Extra("paths", map[string]string{
		"evm": "signed tx -> core.ApplyTransaction (real EVM, real 0xfe precompile, in-memory state) -> callback -> plugin.ExecTX -> plugin.EndBlock",
		"app": "signed tx -> EVMApp.OnExecute/OnCommit on disk (evmdrive) -> same callback -> plugin.ExecTX -> plugin.EndBlock; restart = Close+Open; read-only Query scenario",
	})
	watchdog := time.Duration(lib.Pick(10, 60)) * time.Minute
	run.RunWorkers(sz.workers, watchdog, nil, func(i int, output string) {
		run.Violation("worker-died", fmt.Sprintf("worker %d died while executing admin requests", i), map[string]string{"output": output})
	})
	q := int64(1)
	if lib.Thorough() {
		q = 40
	}
	run.Require("requests", 5000*q)
	run.Require("path_evm_requests", 4800*q)
	run.Require("path_app_requests", 10*q/ifThorough(2, 1))
	run.Require("oracle_accept_with_effect", 800*q)
	run.Require("oracle_refuse", 2000*q)
	run.Require("replays", 300*q)
	run.Require("replays_of_accepted_by_other_account", 80*q)
	run.Require("reordered_pairs", 40*q)
	run.Require("exactly_two_thirds_requests", 15*q)
	run.Require("huge_total_requests", 150*q)
	run.Require("replica_comparisons", 6000*q)
	run.Require("query_scenarios", 4*q/ifThorough(2, 1))
	run.Require("application_reopened_between_blocks", 2*q/ifThorough(2, 1))
	for _, s := range insufficientShapes {
		run.Require("shape:"+s, 25*q)
	}
	for _, c := range []string{cmdAdd, cmdUpdate, cmdRemove} {
		run.Require("applied:"+c, 100*q)
	}
	os.Exit(run.Finish())
}

func ifThorough(t, q int64) int64 {
	if lib.Thorough() {
		return t
	}
	return q
}

func worker() {
	isChild = true
	run = lib.NewChildRun(prop)
	wi, _ := strconv.Atoi(os.Args[2])
	nw, _ := strconv.Atoi(os.Args[3])
	out := os.Args[4]
	installCallback()
	sz := tierSizes()
	scratch := lib.Scratch(prop)
	defer os.RemoveAll(scratch)
	// app cases first: they are the slow ones
	for ci := wi; ci < sz.appCases; ci += nw {
		runCase(int64(ci), "app", filepath.Join(scratch, fmt.Sprintf("app-%d", ci)))
		os.RemoveAll(filepath.Join(scratch, fmt.Sprintf("app-%d", ci)))
	}
	for ci := wi; ci < sz.evmCases; ci += nw {
		runCase(int64(ci), "evm", "")
		if ci%(nw*500) == wi {
			run.ExportTo(out)
		}
	}
	run.MarkComplete()
	os.RemoveAll(scratch)
	if err := run.ExportTo(out); err != nil {
		fmt.Println("export:", err)
		os.Exit(3)
	}
}

// ---- one case ---------------------------------------------------------------------

type blockRec struct {
	Height   int64        `json:"height"`
	InForce  []memberView `json:"set_in_force"`
	Txs      []*txSpec    `json:"txs"`
	Verdicts []verdict    `json:"oracle"`
	Expected []memberView `json:"expected_next_set"`
	Real     *blockObs    `json:"real,omitempty"`
}

type caseRun struct {
	ci       int64
	path     string
	kind     string
	g        *gen
	genesis  []memberView
	A, B     *replica
	blocks   []*blockRec
	raws     [][][]byte
	obsA     []blockObs
	dead     bool
	height   int64
	queried  bool
	reopenAt int64
}

func (c *caseRun) witness(extra map[string]interface{}) map[string]interface{} {
	w := map[string]interface{}{
		"case": c.ci, "path": c.path, "kind": c.kind, "power_mode": c.g.mode, "genesis_set": c.genesis,
		"blocks":        c.blocks,
		"how_to_replay": "VERIF_SEED and tier as recorded; the case is PRNG(seed, \"c14-\"+path, case); every block's signed transactions are in blocks[].txs[].signed_tx_hex",
	}
	for k, v := range extra {
		w[k] = v
	}
	return w
}

var digits = regexp.MustCompile(`[0-9a-fA-F]{6,}|[0-9]+`)

func errClass(s string) string {
	s = digits.ReplaceAllString(s, "#")
	if len(s) > 48 {
		s = s[:48]
	}
	return s
}

func runCase(ci int64, path, scratch string) {
	rng := lib.Rand("c14-"+path, ci)
	g, vals := newGen(rng)
	c := &caseRun{ci: ci, path: path, g: g, genesis: vals}
	kinds := []string{"walk", "walk", "walk", "walk", "walk", "walk", "walk", "replay-update", "replay-remove", "reorder"}
	c.kind = kinds[rng.Intn(len(kinds))]
	c.reopenAt = int64(2 + rng.Intn(2))
	var err error
	if c.A, err = newReplica("continuous", path, vals, filepath.Join(scratch, "A")); err != nil {
		run.Inconclusive("replica: " + err.Error())
		return
	}
	defer c.A.close()
	if c.B, err = newReplica("restarted", path, vals, filepath.Join(scratch, "B")); err != nil {
		run.Inconclusive("replica: " + err.Error())
		return
	}
	defer c.B.close()
	run.Count("cases", 1)
	run.Count("cases_path_"+path, 1)
	run.Count("cases_kind_"+c.kind, 1)
	run.Count("cases_mode_"+g.mode, 1)

	switch c.kind {
	case "replay-update":
		c.scriptReplayUpdate()
	case "replay-remove":
		c.scriptReplayRemove()
	case "reorder":
		c.scriptReorder()
	}
	nb := 1 + rng.Intn(6)
	if c.kind != "walk" {
		nb = rng.Intn(3)
	}
	for b := 0; b < nb && !c.dead; b++ {
		ntx := 1
		switch x := rng.Intn(20); {
		case x == 0:
			ntx = 0
		case x <= 3:
			ntx = 2
		case x == 4:
			ntx = 3
		}
		inforce := g.m.copyMembers()
		var txs []*txSpec
		var vs []verdict
		for i := 0; i < ntx; i++ {
			s := g.genTx(inforce, g.pickPlan())
			txs = append(txs, s)
			vs = append(vs, c.judge(inforce, s))
		}
		c.step(inforce, txs, vs)
	}
	if path == "app" && !c.dead && c.height >= 1 {
		c.queryScenario()
	}
	if !c.dead && path == "evm" {
		// (path app: every application open costs more than a CPU second; the late replica is compared on path evm)
		c.catchUp(scratch)
	}
}

// judge asks the oracle about one generated transaction and records it.
func (c *caseRun) judge(inforce map[string]int64, s *txSpec) verdict {
	g := c.g
	sender := acctOf(s.Sender).Addr
	v := g.m.judge(inforce, sender, s.TxNonce, s.from, s.txdata)
	g.hist = append(g.hist, &histTx{idx: len(g.hist) + 1, spec: s, accepted: v.Accept, effect: v.Effect != nil, executed: v.Executed})
	return v
}

func firstReason(v verdict) string {
	if len(v.Reasons) == 0 {
		return ""
	}
	return v.Reasons[0]
}

func (c *caseRun) countTx(s *txSpec, v verdict, inforce map[string]int64) {
	run.Eval()
	run.Count("requests", 1)
	run.Count("path_"+c.path+"_requests", 1)
	run.Count("plan:"+s.Plan, 1)
	run.Count("shape:"+s.Shape, 1)
	run.Count("binding:"+s.Bind, 1)
	run.Count("route:"+s.Route, 1)
	if v.Cmd != "" {
		run.Count("cmd:"+v.Cmd, 1)
	}
	if s.ReplayOf > 0 {
		run.Count("replays", 1)
		if s.ReplayOfAcc && s.ReplayOther {
			run.Count("replays_of_accepted_by_other_account", 1)
		}
	}
	switch {
	case !v.Executed:
		run.Count("oracle_tx_not_executed", 1)
	case v.Accept && v.Effect != nil:
		run.Count("oracle_accept_with_effect", 1)
	case v.Accept:
		run.Count("oracle_accept_noop", 1)
	default:
		run.Count("oracle_refuse", 1)
		rs := append([]string{}, v.Reasons...)
		sort.Strings(rs)
		run.Count("oracle_refuse:"+strings.Join(rs, "+"), 1)
	}
	if v.Tally != nil {
		t := v.Tally
		three := bigOf(3)
		two := bigOf(2)
		if t.total.Sign() > 0 && three.Mul(three, t.strict).Cmp(two.Mul(two, t.total)) == 0 {
			run.Count("exactly_two_thirds_requests", 1)
		}
		if t.total.Cmp(bigOf(int64(1)<<62)) > 0 {
			run.Count("huge_total_requests", 1)
		}
		if t.perEntry.Cmp(t.strict) > 0 {
			run.Count("requests_with_duplicate_valid_entries", 1)
		}
	}
	run.Nontrivial(strings.Join([]string{s.Plan, s.Shape, s.Bind, v.Cmd, s.Route, c.g.mode, strconv.Itoa(len(inforce)), fmt.Sprint(v.Accept, v.Effect != nil), firstReason(v)}, "|"))
}

// step executes one block on replicas A and B and compares with the oracle.
func (c *caseRun) step(inforce map[string]int64, txs []*txSpec, vs []verdict) {
	c.height++
	h := c.height
	var effs []*effect
	for i, v := range vs {
		c.countTx(txs[i], v, inforce)
		if v.Executed && v.Accept {
			effs = append(effs, v.Effect)
		}
	}
	expected := applyEffects(inforce, effs)
	rec := &blockRec{Height: h, InForce: viewOf(inforce), Txs: txs, Verdicts: vs, Expected: viewOf(expected)}
	c.blocks = append(c.blocks, rec)
	raws := make([][]byte, len(txs))
	for i, s := range txs {
		raws[i] = s.raw
	}
	c.raws = append(c.raws, raws)

	oa := c.A.execBlock(h, raws)
	rec.Real = &oa
	c.obsA = append(c.obsA, oa)
	run.Count("blocks", 1)
	if len(c.blocks) <= 2 && c.ci < 3 {
		run.Sample(map[string]interface{}{"case": c.ci, "path": c.path, "block": rec})
	}

	if oa.Panic != "" {
		viol("panic-in-block-execution:"+errClass(oa.Panic), "executing a block with admin requests panicked: "+oa.Panic, c.witness(nil))
		c.dead = true
		return
	}
	if c.path == "app" {
		// the application does not tell which plugin call belongs to which transaction: the
		// replica attributed them in order; a request the precompile turns away before it reaches
		// the plugin (payload names another account than the transaction's sender) shifts that
		// order. Attribute each call to the next executed transaction naming the account it saw.
		var calls []cbObs
		for i := range oa.Txs {
			calls = append(calls, oa.Txs[i].Callbacks...)
		}
		assign := make([][]cbObs, len(oa.Txs))
		cur, okAll := 0, true
		for _, cb := range calls {
			j := -1
			for i := cur; i < len(txs); i++ {
				if oa.Txs[i].Executed && txs[i].PayloadFrom == cb.From {
					j = i
					break
				}
			}
			if j < 0 {
				okAll = false
				break
			}
			assign[j] = append(assign[j], cb)
			cur = j + 1
		}
		if okAll {
			for i := range oa.Txs {
				oa.Txs[i].Callbacks = assign[i]
			}
			c.obsA[len(c.obsA)-1] = oa
		}
	}
	// the EVM-level outcome must be what the oracle's nonce model says, else the case cannot be followed
	for i, v := range vs {
		if oa.Txs[i].Executed != v.Executed {
			viol("evm-transaction-outcome-differs-from-nonce-model", fmt.Sprintf("tx %d of block %d: executed=%v, model says %v (%s)", i, h, oa.Txs[i].Executed, v.Executed, oa.Txs[i].TxErr), c.witness(nil))
			c.dead = true
			return
		}
		// the account the plugin saw must be the one the oracle assumed
		for _, cb := range oa.Txs[i].Callbacks {
			if cb.From != txs[i].PayloadFrom {
				viol("plugin-saw-other-account-than-assumed", fmt.Sprintf("plugin From()=%s, oracle assumed %s", cb.From, txs[i].PayloadFrom), c.witness(nil))
			}
			if cb.Err == "" {
				run.Count("plugin_returned_ok", 1)
			} else {
				run.Count("plugin_refused", 1)
				run.Count("plugin_refused:"+errClass(cb.Err), 1)
			}
		}
		if v.Executed && len(oa.Txs[i].Callbacks) != 1 {
			run.Count("executed_tx_without_exactly_one_plugin_call", 1)
		}
	}
	realNext, dup := oa.Next.asMap()
	if dup {
		viol("validator-set-lists-a-key-twice", "the next validator set contains the same public key twice", c.witness(nil))
	}
	if oa.CurMutated {
		viol("set-in-force-mutated-during-block", fmt.Sprintf("block %d: the validator set in force for the block was modified while the block executed (changes must go to the next set)", h), c.witness(nil))
	}
	cmdsOf := func() string {
		var cs []string
		for _, v := range vs {
			if v.Executed && v.Accept && v.Effect != nil {
				cs = append(cs, v.Effect.Cmd)
			}
		}
		return strings.Join(cs, "+")
	}
	ok := sameMembers(realNext, expected) && oa.EndBlockErr == ""
	if !ok {
		// name the class: first a request the oracle refuses but the plugin let through
		key := ""
		what := ""
		for i, v := range vs {
			pluginOK := false
			for _, cb := range oa.Txs[i].Callbacks {
				if cb.Err == "" {
					pluginOK = true
				}
			}
			if v.Executed && !v.Accept && pluginOK {
				key = classOfWrongAccept(v, txs[i].ReplayOf > 0 && txs[i].ReplayOfAcc, txs[i].ReplayOther)
				what = fmt.Sprintf("block %d tx %d (%s/%s/%s, %s): the oracle refuses it (%s) but the plugin accepted it and the next validator set changed", h, i, txs[i].Plan, txs[i].Shape, txs[i].Bind, txs[i].Route, strings.Join(v.Reasons, ","))
				if oa.EndBlockErr != "" {
					what += "; EndBlock then failed: " + oa.EndBlockErr
				}
				break
			}
		}
		if key == "" && oa.EndBlockErr != "" {
			key = "endblock-fails-on-accepted-requests:" + errClass(oa.EndBlockErr)
			what = fmt.Sprintf("block %d: every request was rightly accepted when executed but EndBlock failed (%s): State.ExecBlock fails on every replica and the accepted change never takes effect", h, oa.EndBlockErr)
		}
		if key == "" {
			for i, v := range vs {
				if v.Executed && v.Accept && v.Effect != nil {
					perr := ""
					for _, cb := range oa.Txs[i].Callbacks {
						perr = cb.Err
					}
					if perr != "" || len(oa.Txs[i].Callbacks) == 0 {
						key = "valid-request-refused:" + v.Effect.Cmd + ":" + errClass(perr)
						if v.Tally != nil && !v.Tally.perEntryLax.IsInt64() {
							key = "valid-request-refused:duplicate-entries-overflow-the-tally"
						}
						what = fmt.Sprintf("block %d tx %d: a well-formed, sufficiently signed %s with the submitter's correct nonce was refused (%s)", h, i, v.Effect.Cmd, perr)
						break
					}
				}
			}
		}
		if key == "" {
			if sameMembers(realNext, inforce) {
				key = "accepted-change-not-applied:" + cmdsOf()
			} else {
				key = "accepted-change-yields-wrong-set:" + cmdsOf()
			}
			what = fmt.Sprintf("block %d: plugin and oracle agree on every request but the next validator set differs from what the requests describe", h)
		}
		viol(key, what, c.witness(map[string]interface{}{"real_next_set": viewOf(realNext)}))
	}
	if ok {
		run.Count("blocks_next_set_as_expected", 1)
		for _, e := range effs {
			if e != nil {
				run.Count("applied:"+e.Cmd, 1)
			}
		}
		if !sameMembers(expected, inforce) {
			run.Count("blocks_with_applied_change", 1)
		}
	} else {
		run.Count("resyncs_after_violation", 1)
	}
	// replica B: restarted before every block
	reopen := c.path == "app" && h == c.reopenAt
	if reopen {
		run.Count("application_reopened_between_blocks", 1)
	}
	run.Count("plugin_and_set_rebuilt_from_bytes", 1)
	if err := c.B.restart(reopen); err != nil {
		run.Inconclusive("restart: " + err.Error())
		c.dead = true
		return
	}
	ob := c.B.execBlock(h, raws)
	c.compareReplica("restarted-between-blocks", h, oa, ob)
	// follow the real code from here on
	c.g.m.members = realNext
}

func (c *caseRun) compareReplica(name string, h int64, a, b blockObs) {
	run.Count("replica_comparisons", 1)
	run.Count("replica_comparisons:"+name, 1)
	same := a.Next.equal(b.Next) && a.EndBlockErr == b.EndBlockErr && a.Panic == b.Panic && len(a.Txs) == len(b.Txs)
	if same {
		for i := range a.Txs {
			if a.Txs[i].Executed != b.Txs[i].Executed {
				same = false
			}
		}
	}
	if !same {
		viol("replica-diverges:"+name, fmt.Sprintf("after block %d the %s replica reports another validator set (order/powers/accums/Hash) or another block outcome than the continuous one", h, name),
			c.witness(map[string]interface{}{"continuous": a, name: b}))
	}
}

// catchUp applies all blocks to a fresh replica afterwards.
func (c *caseRun) catchUp(scratch string) {
	r, err := newReplica("catch-up", c.path, c.genesis, filepath.Join(scratch, "C"))
	if err != nil {
		run.Inconclusive("replica: " + err.Error())
		return
	}
	defer r.close()
	for i, raws := range c.raws {
		o := r.execBlock(int64(i+1), raws)
		if c.queried && i == len(c.raws)-1 {
			// the continuous replica served a query before this block; it is judged in queryScenario
			continue
		}
		c.compareReplica("late-catch-up", int64(i+1), c.obsA[i], o)
	}
}

// ---- scripted scenarios ----------------------------------------------------------

func (c *caseRun) one(plan string, f *force) (*txSpec, verdict, map[string]int64) {
	inforce := c.g.m.copyMembers()
	c.g.f = f
	s := c.g.genTx(inforce, plan)
	c.g.f = nil
	v := c.judge(inforce, s)
	c.step(inforce, []*txSpec{s}, []verdict{v})
	return s, v, inforce
}

func (c *caseRun) anyMember() *edKey {
	ms := c.g.sortedMembers(c.g.m.members)
	if len(ms) == 0 {
		return nil
	}
	return c.g.keys[ms[c.g.rng.Intn(len(ms))]]
}

// update X->p1 by account 0; update X->p2 by account 1; (maybe account 0 moves on);
// then another account re-submits the first request.
func (c *caseRun) scriptReplayUpdate() {
	x := c.anyMember()
	if x == nil {
		return
	}
	cur := c.g.m.members[hex.EncodeToString(x.Pub)]
	p1 := c.g.newPower(cur, true)
	if p1 >= hugeUnit {
		p1 = cur + 3
	}
	c.one("valid", &force{sender: 0, cmd: cmdUpdate, target: x, power: p1, shape: "all"})
	if c.dead {
		return
	}
	h1 := c.g.hist[len(c.g.hist)-1]
	p2 := p1 + 1 + int64(c.g.rng.Intn(5))
	c.one("valid", &force{sender: 1, cmd: cmdUpdate, target: x, power: p2, shape: "all"})
	if c.dead {
		return
	}
	moved := c.g.rng.Intn(3) == 0
	if moved {
		// the named account sends something else first: its nonce moves on
		c.one("noop", &force{sender: 0})
		if c.dead {
			return
		}
		run.Count("replay_scripts_named_account_moved_on", 1)
	}
	c.replayBlock(h1, 2+c.g.rng.Intn(3))
}

func (c *caseRun) replayBlock(h *histTx, sender int) {
	inforce := c.g.m.copyMembers()
	s := c.g.mkReplay(h, "replay-other", sender)
	v := c.judge(inforce, s)
	c.step(inforce, []*txSpec{s}, []verdict{v})
}

// remove X by account 0; add X again by account 1; another account re-submits the removal.
func (c *caseRun) scriptReplayRemove() {
	if len(c.g.m.members) < 2 {
		c.scriptReplayUpdate()
		return
	}
	x := c.anyMember()
	c.one("valid", &force{sender: 0, cmd: cmdRemove, target: x, shape: "all"})
	if c.dead {
		return
	}
	h1 := c.g.hist[len(c.g.hist)-1]
	c.one("valid", &force{sender: 1, cmd: cmdAdd, target: x, power: int64(1 + c.g.rng.Intn(3)), shape: "all"})
	if c.dead {
		return
	}
	c.replayBlock(h1, 2+c.g.rng.Intn(3))
}

// two requests of one account with consecutive nonces, submitted in the wrong order.
func (c *caseRun) scriptReorder() {
	x := c.anyMember()
	if x == nil {
		return
	}
	g := c.g
	inforce := g.m.copyMembers()
	cur := inforce[hex.EncodeToString(x.Pub)]
	sender := g.rng.Intn(nAccts)
	sk := hex.EncodeToString(acctOf(sender).Addr)
	g.f = &force{sender: sender, cmd: cmdUpdate, target: x, power: cur + 1, shape: "all"}
	t1 := g.genTx(inforce, "valid")
	g.m.nonces[sk]++
	g.f = &force{sender: sender, cmd: cmdUpdate, target: x, power: cur + 2, shape: "all"}
	t2 := g.genTx(inforce, "valid")
	g.m.nonces[sk]--
	g.f = nil
	t1.Plan, t2.Plan = "reorder-first-of-pair", "reorder-second-of-pair"
	t1.Bind, t2.Bind = "reordered", "reordered"
	run.Count("reordered_pairs", 1)
	if g.rng.Intn(2) == 0 {
		// same block, swapped
		v2 := c.judge(inforce, t2)
		v1 := c.judge(inforce, t1)
		c.step(inforce, []*txSpec{t2, t1}, []verdict{v2, v1})
	} else {
		v2 := c.judge(inforce, t2)
		c.step(inforce, []*txSpec{t2}, []verdict{v2})
		if c.dead {
			return
		}
		inforce = g.m.copyMembers()
		v1 := c.judge(inforce, t1)
		c.step(inforce, []*txSpec{t1}, []verdict{v1})
	}
	if c.dead {
		return
	}
	// the skipped one again, as the same signed transaction
	inforce = g.m.copyMembers()
	s := g.mkReplay(g.hist[len(g.hist)-1], "replay-raw", -1)
	for _, h := range g.hist {
		if h.spec == t2 {
			s = g.mkReplay(h, "replay-raw", -1)
		}
	}
	v := c.judge(inforce, s)
	c.step(inforce, []*txSpec{s}, []verdict{v})
}

// queryScenario (path app): the continuous replica alone receives a read-only
// contract query (QueryType_Contract, what an eth_call is here) that carries an
// administrative request; then every replica executes an empty block. A query
// is not a submitted request: no replica's set may change, and the replicas
// must still agree.
func (c *caseRun) queryScenario() {
	g := c.g
	inforce := g.m.copyMembers()
	var s *txSpec
	kind := "fresh-valid-request"
	var pref []*histTx
	for _, h := range g.hist {
		if h.accepted && h.effect {
			pref = append(pref, h)
		}
	}
	if len(pref) > 0 && g.rng.Intn(2) == 0 {
		kind = "replayed-accepted-request"
		s = g.mkReplay(pref[g.rng.Intn(len(pref))], "replay-other", -1)
	} else {
		s = g.genTx(inforce, "valid")
	}
	run.Count("query_scenarios", 1)
	run.Count("query_scenarios:"+kind, 1)
	code, calls, perr := c.A.query(s.raw)
	before := observeSet(c.A.cur)
	c.height++
	h := c.height
	c.raws = append(c.raws, nil)
	oa := c.A.execBlock(h, nil)
	c.obsA = append(c.obsA, oa)
	c.queried = true
	rec := &blockRec{Height: h, InForce: viewOf(inforce), Expected: viewOf(inforce), Real: &oa}
	c.blocks = append(c.blocks, rec)
	if err := c.B.restart(false); err == nil {
		c.B.execBlock(h, nil)
	}
	realNext, _ := oa.Next.asMap()
	if perr != "" {
		viol("panic-in-read-only-query:"+errClass(perr), "a read-only contract query carrying an admin request panicked: "+perr, c.witness(map[string]interface{}{"query_tx": s}))
		return
	}
	if !sameMembers(realNext, inforce) {
		viol("read-only-query-changes-validator-set-of-one-replica",
			fmt.Sprintf("a read-only contract query (%s) sent to one node reached plugin.ExecTX; after the next (empty) block that node's validator set differs from before and from the other replicas", kind),
			c.witness(map[string]interface{}{"query_tx": s, "query_result_code": code, "plugin_calls_during_query": calls, "set_before": before, "set_after_empty_block": oa.Next, "other_replica_set": observeSet(c.B.cur)}))
		// keep following the real code
		g.m.members = realNext
		return
	}
	run.Count("query_scenarios_no_change", 1)
}
