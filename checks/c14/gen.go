package main

// Workload generator. It builds administrative requests the way the operators'
// client does (cmd/client/commands/admin_op.go: ValidatorAttr as JSON in
// AdminOPCmd.Msg, one SigInfo per signing validator, "zaop" tag, sent either to
// the Admin contract 0x02000000 -> changenode(bytes) or straight to 0xfe), plus
// every deviation the property quantifies over. Signing uses crypto/ed25519 of
// the standard library; the generator consults only the oracle's model.

import (
	"crypto/ecdsa"
	"crypto/ed25519"
	"crypto/sha256"
	"encoding/binary"
	"encoding/hex"
	"encoding/json"
	"fmt"
	"math/rand"
	"sort"
	"strings"
	"time"

	"github.com/dappledger/AnnChain/eth/accounts/abi"
	"github.com/dappledger/AnnChain/eth/common"
	"github.com/dappledger/AnnChain/eth/core"

	"verif/evmdrive"
)

type edKey struct {
	Label string
	Priv  ed25519.PrivateKey
	Pub   []byte
}

var edCache = map[string]*edKey{}

func edKeyOf(label string) *edKey {
	if k, ok := edCache[label]; ok {
		return k
	}
	seed := sha256.Sum256([]byte("c14-ed25519-" + label))
	priv := ed25519.NewKeyFromSeed(seed[:])
	k := &edKey{Label: label, Priv: priv, Pub: []byte(priv.Public().(ed25519.PublicKey))}
	edCache[label] = k
	return k
}

type acct struct {
	Key  *ecdsa.PrivateKey
	Addr []byte
}

var acctCache = map[int]*acct{}

func acctOf(i int) *acct {
	if a, ok := acctCache[i]; ok {
		return a
	}
	k := evmdrive.Key(fmt.Sprintf("c14-acct-%d", i))
	a := &acct{Key: k, Addr: evmdrive.Addr(k).Bytes()}
	acctCache[i] = a
	return a
}

const nAccts = 5

var (
	adminABI  abi.ABI
	precompFE = common.BytesToAddress([]byte{0xfe})
)

func init() {
	var err error
	adminABI, err = abi.JSON(strings.NewReader(core.AdminABI))
	if err != nil {
		panic(err)
	}
}

// txSpec is one submitted transaction with everything needed to replay it.
type txSpec struct {
	Plan        string `json:"plan"`
	Shape       string `json:"signature_list_shape"`
	Bind        string `json:"binding"`
	Route       string `json:"route"` // contract: tx to 0x02000000 changenode(bytes); direct: tx to 0xfe
	Sender      int    `json:"sender_account"`
	SenderAddr  string `json:"sender_address"`
	TxNonce     uint64 `json:"tx_nonce"`
	PayloadFrom string `json:"account_named_in_payload"`
	Request     string `json:"request"` // the tagged request (JSON text after the 4-byte tag)
	Raw         string `json:"signed_tx_hex"`
	ReplayOf    int    `json:"replay_of_tx,omitempty"` // 1-based index into the case's transactions, 0 = none
	ReplayOther bool   `json:"replayed_by_other_account,omitempty"`
	ReplayOfAcc bool   `json:"replayed_request_was_accepted,omitempty"`

	txdata  []byte
	from    []byte
	raw     []byte
	entries []oSig // the signature list of this request
}

type histTx struct {
	idx      int // 1-based
	spec     *txSpec
	accepted bool
	effect   bool
	executed bool
}

// force pins choices of the next generated transaction (scripted scenarios).
type force struct {
	sender int // -1: free
	cmd    string
	target *edKey
	power  int64
	shape  string
	route  string
}

type gen struct {
	f     *force
	rng   *rand.Rand
	m     *model
	mode  string
	keys  map[string]*edKey // hex(pub) -> key, for everybody who may sign
	pool  []*edKey          // outsiders that may be added
	hist  []*histTx
	ntx   int
	fixed time.Time
}

const hugeUnit = int64(1) << 57

func newGen(rng *rand.Rand) (*gen, []memberView) {
	g := &gen{rng: rng, m: newModel(), keys: map[string]*edKey{}, fixed: time.Unix(1500000000, 0).UTC()}
	n := 1 + rng.Intn(7)
	modes := []string{"unit", "small", "small", "skewed", "huge", "equal3", "zeros"}
	g.mode = modes[rng.Intn(len(modes))]
	powers := make([]int64, n)
	switch g.mode {
	case "unit":
		for i := range powers {
			powers[i] = 1
		}
	case "small":
		for i := range powers {
			powers[i] = int64(1 + rng.Intn(10))
			if i > 0 && rng.Intn(6) == 0 {
				powers[i] = 0 // a peer: member without voting power
			}
		}
	case "skewed":
		for i := range powers {
			powers[i] = int64(1 + rng.Intn(3))
		}
		powers[rng.Intn(n)] = int64(5 + rng.Intn(1000))
	case "huge":
		// total in (2^62, 2^62+2^61]: total*2 does not fit into int64, total does
		total := (int64(1) << 62) + 1 + rng.Int63n(int64(1)<<61)
		w := make([]int64, n)
		var sw int64
		for i := range w {
			w[i] = int64(1 + rng.Intn(10))
			sw += w[i]
		}
		var used int64
		for i := range powers {
			powers[i] = total / sw * w[i]
			used += powers[i]
		}
		powers[0] += total - used
	case "equal3":
		// sets where a subset holds exactly two thirds
		n = []int{3, 6, 3, 6, 2}[rng.Intn(5)]
		powers = make([]int64, n)
		u := int64(1 + rng.Intn(4))
		for i := range powers {
			powers[i] = u
		}
		if n == 2 {
			powers[0], powers[1] = 2*u, u
		}
	case "zeros":
		for i := range powers {
			powers[i] = int64(rng.Intn(4))
		}
		powers[rng.Intn(n)] = int64(1 + rng.Intn(5))
	}
	var vals []memberView
	for i := 0; i < n; i++ {
		k := edKeyOf(fmt.Sprintf("v%d", i))
		g.keys[hex.EncodeToString(k.Pub)] = k
		g.m.members[hex.EncodeToString(k.Pub)] = powers[i]
		vals = append(vals, memberView{hex.EncodeToString(k.Pub), pw(powers[i])})
	}
	for i := 0; i < 6; i++ {
		k := edKeyOf(fmt.Sprintf("x%d", i))
		g.keys[hex.EncodeToString(k.Pub)] = k
		g.pool = append(g.pool, k)
	}
	return g, vals
}

func (g *gen) pick(ss ...string) string { return ss[g.rng.Intn(len(ss))] }

func (g *gen) sortedMembers(inforce map[string]int64) []string {
	out := make([]string, 0, len(inforce))
	for k := range inforce {
		out = append(out, k)
	}
	sort.Strings(out)
	return out
}

func (g *gen) newPower(cur int64, have bool) int64 {
	for {
		var p int64
		switch g.rng.Intn(6) {
		case 0:
			p = 0
		case 1, 2:
			p = int64(1 + g.rng.Intn(10))
		case 3:
			p = cur + 1
		case 4:
			p = hugeUnit + int64(g.rng.Intn(1000))
		case 5:
			p = int64(1 + g.rng.Intn(1000))
		}
		if !have || p != cur {
			return p
		}
	}
}

// pickCmd chooses a command; visible => it would change the set if accepted.
func (g *gen) pickCmd(inforce map[string]int64, visible bool) (cmd string, target *edKey, power int64) {
	members := g.sortedMembers(inforce)
	var outsiders []*edKey
	for _, k := range g.pool {
		if _, ok := inforce[hex.EncodeToString(k.Pub)]; !ok {
			outsiders = append(outsiders, k)
		}
	}
	// former members are outsiders too
	for _, pk := range g.sortedKeys() {
		if _, ok := inforce[pk]; !ok && strings.HasPrefix(g.keys[pk].Label, "v") {
			outsiders = append(outsiders, g.keys[pk])
		}
	}
	for {
		switch g.rng.Intn(3) {
		case 0: // add
			if visible {
				if len(outsiders) == 0 {
					continue
				}
				k := outsiders[g.rng.Intn(len(outsiders))]
				p := int64(0)
				if g.rng.Intn(2) == 0 {
					p = g.newPower(0, false)
				}
				return cmdAdd, k, p
			}
			if len(members) == 0 {
				continue
			}
			return cmdAdd, g.keys[members[g.rng.Intn(len(members))]], int64(g.rng.Intn(5))
		case 1: // update
			if len(members) == 0 {
				continue
			}
			pk := members[g.rng.Intn(len(members))]
			if visible {
				return cmdUpdate, g.keys[pk], g.newPower(inforce[pk], true)
			}
			return cmdUpdate, g.keys[pk], inforce[pk]
		case 2: // remove
			if visible {
				if len(members) < 2 {
					continue
				}
				return cmdRemove, g.keys[members[g.rng.Intn(len(members))]], 0
			}
			if len(outsiders) == 0 {
				continue
			}
			return cmdRemove, outsiders[g.rng.Intn(len(outsiders))], 0
		}
	}
}

func (g *gen) sortedKeys() []string {
	out := make([]string, 0, len(g.keys))
	for k := range g.keys {
		out = append(out, k)
	}
	sort.Strings(out)
	return out
}

func sign(k *edKey, msg []byte) []byte { return ed25519.Sign(k.Priv, msg) }

func otherMsg(msg []byte) []byte {
	// a well-formed but different request: same text with one more space
	return append(append([]byte{}, msg...), ' ')
}

var sufficientShapes = []string{"all", "min", "min", "min+noise", "min+dup"}
var insufficientShapes = []string{"under", "under", "under+dup", "under+dup", "under+dup", "under+zero", "under+zero", "under+zero", "under+foreign",
	"under+wrongmsg", "under+truncsig", "under+longsig", "under+trunckey", "under+longkey", "wrongmsg-all", "none", "random", "borrowed", "borrowed"}

// entries builds the signature list of the given shape over msg.
func (g *gen) entries(shape string, inforce map[string]int64, msg []byte) ([]oSig, string) {
	var powered, zero []string
	for _, pk := range g.sortedMembers(inforce) {
		if inforce[pk] > 0 {
			powered = append(powered, pk)
		} else {
			zero = append(zero, pk)
		}
	}
	g.rng.Shuffle(len(powered), func(i, j int) { powered[i], powered[j] = powered[j], powered[i] })
	total := totalOf(inforce)
	k := 0
	sum := totalOf(nil)
	for k < len(powered) && !moreThanTwoThirds(sum, total) {
		sum.Add(sum, bigOf(inforce[powered[k]]))
		k++
	}
	// powered[:k] is a minimal sufficient prefix (if any), powered[:k-1] is insufficient
	good := func(pk string) oSig { return oSig{g.keys[pk].Pub, sign(g.keys[pk], msg)} }
	var out []oSig
	min := powered[:k]
	under := powered[:0]
	if k > 0 {
		under = powered[:k-1]
	}
	var extra string // the validator whose honest entry would make the list sufficient
	if k > 0 {
		extra = powered[k-1]
	}
	foreign := func() oSig {
		var cands []*edKey
		for _, pk := range g.sortedKeys() {
			if _, ok := inforce[pk]; !ok {
				cands = append(cands, g.keys[pk])
			}
		}
		f := edKeyOf("stranger")
		if len(cands) > 0 {
			f = cands[g.rng.Intn(len(cands))]
		}
		return oSig{f.Pub, sign(f, msg)}
	}
	switch shape {
	case "all":
		for _, pk := range powered {
			out = append(out, good(pk))
		}
		if g.rng.Intn(2) == 0 {
			for _, pk := range zero {
				out = append(out, good(pk))
			}
		}
	case "min":
		for _, pk := range min {
			out = append(out, good(pk))
		}
	case "min+noise":
		for _, pk := range min {
			out = append(out, good(pk))
		}
		for i := 0; i < 1+g.rng.Intn(3); i++ {
			switch g.rng.Intn(4) {
			case 0:
				out = append(out, foreign())
			case 1:
				if len(powered) > 0 {
					pk := powered[g.rng.Intn(len(powered))]
					out = append(out, oSig{g.keys[pk].Pub, sign(g.keys[pk], otherMsg(msg))})
				}
			case 2:
				out = append(out, oSig{[]byte{1, 2, 3}, []byte{4, 5}})
			case 3:
				if len(zero) > 0 {
					out = append(out, good(zero[g.rng.Intn(len(zero))]))
				}
			}
		}
	case "min+dup":
		for _, pk := range min {
			out = append(out, good(pk))
		}
		for i := 0; i < 1+g.rng.Intn(3) && len(min) > 0; i++ {
			out = append(out, good(min[g.rng.Intn(len(min))]))
		}
	case "under":
		for _, pk := range under {
			out = append(out, good(pk))
		}
	case "under+dup":
		if len(under) == 0 {
			return g.entries("none", inforce, msg)
		}
		for _, pk := range under {
			out = append(out, good(pk))
		}
		// repeat the strongest of them until the per-entry sum passes 2/3 (at most 64 copies)
		best := under[0]
		for _, pk := range under {
			if inforce[pk] > inforce[best] {
				best = pk
			}
		}
		per := totalOf(nil)
		for _, pk := range under {
			per.Add(per, bigOf(inforce[pk]))
		}
		e := good(best)
		for c := 0; c < 64 && !moreThanTwoThirds(per, total); c++ {
			out = append(out, e)
			per.Add(per, bigOf(inforce[best]))
		}
		if g.rng.Intn(3) == 0 { // a few more
			out = append(out, e, e)
		}
	case "under+zero":
		if len(zero) == 0 {
			return g.entries("under+foreign", inforce, msg)
		}
		for _, pk := range under {
			out = append(out, good(pk))
		}
		for _, pk := range zero {
			out = append(out, good(pk))
		}
	case "under+foreign":
		for _, pk := range under {
			out = append(out, good(pk))
		}
		for i := 0; i < 1+g.rng.Intn(4); i++ {
			out = append(out, foreign())
		}
	case "under+wrongmsg", "under+truncsig", "under+longsig", "under+trunckey", "under+longkey":
		if extra == "" {
			return g.entries("none", inforce, msg)
		}
		for _, pk := range under {
			out = append(out, good(pk))
		}
		ek := g.keys[extra]
		switch shape {
		case "under+wrongmsg":
			out = append(out, oSig{ek.Pub, sign(ek, otherMsg(msg))})
		case "under+truncsig":
			s := sign(ek, msg)
			out = append(out, oSig{ek.Pub, s[:len(s)-1-g.rng.Intn(3)]})
		case "under+longsig":
			out = append(out, oSig{ek.Pub, append(sign(ek, msg), make([]byte, 1+g.rng.Intn(3))...)})
		case "under+trunckey":
			out = append(out, oSig{ek.Pub[:len(ek.Pub)-1-g.rng.Intn(3)], sign(ek, msg)})
		case "under+longkey":
			out = append(out, oSig{append(append([]byte{}, ek.Pub...), make([]byte, 1+g.rng.Intn(3))...), sign(ek, msg)})
		}
	case "wrongmsg-all":
		o := otherMsg(msg)
		for _, pk := range powered {
			out = append(out, oSig{g.keys[pk].Pub, sign(g.keys[pk], o)})
		}
	case "none":
	case "random":
		for i := g.rng.Intn(10); i > 0; i-- {
			switch g.rng.Intn(6) {
			case 0, 1:
				if len(powered) > 0 {
					out = append(out, good(powered[g.rng.Intn(len(powered))]))
				}
			case 2:
				out = append(out, foreign())
			case 3:
				if len(zero) > 0 {
					out = append(out, good(zero[g.rng.Intn(len(zero))]))
				}
			case 4:
				if len(powered) > 0 {
					pk := powered[g.rng.Intn(len(powered))]
					out = append(out, oSig{g.keys[pk].Pub, sign(g.keys[pk], otherMsg(msg))})
				}
			case 5:
				if len(powered) > 0 {
					pk := powered[g.rng.Intn(len(powered))]
					out = append(out, oSig{g.keys[pk].Pub, append(sign(g.keys[pk], msg), 0)})
				}
			}
		}
	default:
		panic("shape " + shape)
	}
	g.rng.Shuffle(len(out), func(i, j int) { out[i], out[j] = out[j], out[i] })
	return out, shape
}

func buildRequest(cmdType string, msg, selfSign []byte, entries []oSig, t time.Time) []byte {
	c := oCmd{CmdType: cmdType, Msg: msg, SelfSign: selfSign, Time: t, SInfos: entries}
	b, err := json.Marshal(c)
	if err != nil {
		panic(err)
	}
	return append([]byte("zaop"), b...)
}

// frame is the 0xfe call input: 32-byte length word, 20-byte account, request
// (what the Admin contract builds with abi.encodePacked(msg.sender, txdata)).
func frame(from []byte, txdata []byte) []byte {
	out := make([]byte, 32, 52+len(txdata))
	binary.BigEndian.PutUint64(out[24:], uint64(20+len(txdata)))
	out = append(out, from...)
	return append(out, txdata...)
}

func (g *gen) envelope(s *txSpec) {
	a := acctOf(s.Sender)
	s.SenderAddr = hex.EncodeToString(a.Addr)
	var to common.Address
	var data []byte
	if s.Route == "contract" {
		to = core.AdminTo
		var err error
		data, err = adminABI.Pack(core.AdminMethod, s.txdata)
		if err != nil {
			panic(err)
		}
		s.from = a.Addr // the contract writes msg.sender
	} else {
		to = precompFE
		data = frame(s.from, s.txdata)
	}
	s.PayloadFrom = hex.EncodeToString(s.from)
	s.raw = evmdrive.SignedTx(a.Key, s.TxNonce, &to, 0, 50000000, 0, data)
	s.Raw = hex.EncodeToString(s.raw)
	if len(s.txdata) > 4 {
		s.Request = string(s.txdata[4:])
	}
}

// genTx produces the next transaction of the case. localNonces are the
// oracle's nonces including the transactions generated earlier in this block.
func (g *gen) genTx(inforce map[string]int64, plan string) *txSpec {
	g.ntx++
	s := &txSpec{Plan: plan, Sender: g.rng.Intn(nAccts), Route: g.pick("contract", "direct"), Bind: "canonical"}

	// replays reuse earlier request bytes
	switch plan {
	case "replay-same", "replay-other", "replay-raw":
		if len(g.hist) == 0 {
			return g.genTx2(inforce, "valid", s)
		}
		// prefer requests that were accepted and had an effect; only plainly signed ones
		// (a replay of an under-signed request would mix two defect classes in one witness)
		var pref, plain []*histTx
		for _, h := range g.hist {
			if h.spec.Shape != "all" && h.spec.Shape != "min" && h.spec.Shape != "min+noise" {
				continue
			}
			if !strictTallyPasses(inforce, h.spec.txdata) {
				continue
			}
			plain = append(plain, h)
			if h.accepted && h.effect {
				pref = append(pref, h)
			}
		}
		if len(plain) == 0 {
			return g.genTx2(inforce, "valid", s)
		}
		h := plain[g.rng.Intn(len(plain))]
		if len(pref) > 0 && g.rng.Intn(4) != 0 {
			h = pref[g.rng.Intn(len(pref))]
		}
		return g.mkReplay(h, plan, -1)
	}
	return g.genTx2(inforce, plan, s)
}

// mkReplay re-submits the request bytes of an earlier transaction.
func (g *gen) mkReplay(h *histTx, plan string, sender int) *txSpec {
	nonceOf := func(i int) uint64 { return g.m.nonces[hex.EncodeToString(acctOf(i).Addr)] }
	other := func(i int) int { return (i + 1 + g.rng.Intn(nAccts-1)) % nAccts }
	s := &txSpec{Plan: plan, Route: g.pick("contract", "direct")}
	s.ReplayOf = h.idx
	s.ReplayOfAcc = h.accepted
	s.Shape = h.spec.Shape
	s.txdata = h.spec.txdata
	switch plan {
	case "replay-raw":
		// the very same signed transaction again
		s.Sender, s.Route, s.TxNonce, s.from, s.raw = h.spec.Sender, h.spec.Route, h.spec.TxNonce, h.spec.from, h.spec.raw
		s.SenderAddr, s.PayloadFrom, s.Raw, s.Request, s.Bind = h.spec.SenderAddr, h.spec.PayloadFrom, h.spec.Raw, h.spec.Request, "raw-replay"
		return s
	case "replay-same":
		s.Sender = h.spec.Sender
		s.from = acctOf(s.Sender).Addr
		s.Bind = "replay-by-same-account"
	case "replay-other":
		s.Sender = other(h.spec.Sender)
		if sender >= 0 {
			s.Sender = sender
		}
		s.Route = "direct"
		s.from = h.spec.from
		s.ReplayOther = true
		s.Bind = "replay-by-other-account"
	}
	s.TxNonce = nonceOf(s.Sender)
	g.envelope(s)
	return s
}

func (g *gen) genTx2(inforce map[string]int64, plan string, s *txSpec) *txSpec {
	s.Plan = plan
	nonceOf := func(i int) uint64 { return g.m.nonces[hex.EncodeToString(acctOf(i).Addr)] }
	other := func(i int) int { return (i + 1 + g.rng.Intn(nAccts-1)) % nAccts }
	if g.f != nil {
		if g.f.sender >= 0 {
			s.Sender = g.f.sender
		}
		if g.f.route != "" {
			s.Route = g.f.route
		}
	}
	s.TxNonce = nonceOf(s.Sender)
	s.from = acctOf(s.Sender).Addr
	attrAddr := acctOf(s.Sender).Addr
	attrNonce := s.TxNonce
	cmdType := cmdTypeChange
	visible := true
	shape := g.pick(sufficientShapes...)
	selfMode := "valid"
	var cmd string
	var target *edKey
	var power int64

	switch plan {
	case "valid":
	case "undersigned":
		shape = g.pick(insufficientShapes...)
	case "binding":
		s.Bind = g.pick("stale", "future", "wrap", "addr-other", "from-other", "from-other")
		switch s.Bind {
		case "stale":
			if attrNonce == 0 {
				s.Bind = "future"
				attrNonce += uint64(1 + g.rng.Intn(3))
			} else {
				attrNonce -= uint64(1 + g.rng.Intn(int(minU(attrNonce, 2))))
			}
		case "future":
			attrNonce += uint64(1 + g.rng.Intn(3))
		case "wrap":
			attrNonce = ^uint64(0) // nonce+1 wraps to 0
		case "addr-other":
			attrAddr = acctOf(other(s.Sender)).Addr
		case "from-other":
			// a request naming another account (its address and a nonce that fits it), submitted by s.Sender
			o := other(s.Sender)
			s.Route = "direct"
			s.from = acctOf(o).Addr
			attrAddr = s.from
			attrNonce = nonceOf(o) - 1 // wraps for a fresh account
		}
	case "unknown":
		if g.rng.Intn(2) == 0 {
			cmdType = g.pick("", "ChangeValidator", "changeValidators", "other")
		} else {
			cmd = g.pick("promote", "add", "", "REMOVE_NODE", "update")
		}
	case "noop":
		visible = false
	case "update-nonmember":
	case "selfsign":
		selfMode = g.pick("missing", "wrongmsg", "otherkey", "trunc")
	}
	if g.f != nil && g.f.cmd != "" {
		cmd, target, power = g.f.cmd, g.f.target, g.f.power
	} else if cmd == "" {
		cmd, target, power = g.pickCmd(inforce, visible)
	} else {
		_, target, power = g.pickCmd(inforce, visible)
	}
	if plan == "update-nonmember" || plan == "selfsign" {
		// need an outsider
		var outs []*edKey
		for _, k := range g.pool {
			if _, ok := inforce[hex.EncodeToString(k.Pub)]; !ok {
				outs = append(outs, k)
			}
		}
		if len(outs) == 0 {
			s.Plan = "valid"
		} else {
			target = outs[g.rng.Intn(len(outs))]
			power = int64(1 + g.rng.Intn(5))
			if plan == "update-nonmember" {
				cmd = cmdUpdate
			} else {
				cmd = cmdAdd
			}
		}
	}
	attr := oAttr{PubKey: target.Pub, Power: power, Cmd: cmd, Addr: attrAddr, Nonce: attrNonce}
	msg, err := json.Marshal(attr)
	if err != nil {
		panic(err)
	}
	var selfSign []byte
	if cmd == cmdAdd {
		switch selfMode {
		case "valid":
			selfSign = sign(target, msg)
		case "missing":
		case "wrongmsg":
			selfSign = sign(target, otherMsg(msg))
		case "otherkey":
			selfSign = sign(edKeyOf("stranger"), msg)
		case "trunc":
			selfSign = sign(target, msg)[:60]
		}
	}
	if g.f != nil && g.f.shape != "" {
		shape = g.f.shape
	}
	var entries []oSig
	actual := shape
	if shape == "borrowed" {
		// the complete signature list of an earlier accepted request (genuine signatures of the
		// validators, over that request's message) under this, different request
		var cands []*histTx
		for _, h := range g.hist {
			if h.accepted && len(h.spec.entries) > 0 && h.spec.Shape != "borrowed" {
				cands = append(cands, h)
			}
		}
		if len(cands) == 0 {
			shape = "wrongmsg-all"
		} else {
			entries = append([]oSig{}, cands[g.rng.Intn(len(cands))].spec.entries...)
		}
	}
	if shape != "borrowed" {
		entries, actual = g.entries(shape, inforce, msg)
	}
	s.entries = entries
	s.Shape = actual
	s.txdata = buildRequest(cmdType, msg, selfSign, entries, g.fixed)
	g.envelope(s)
	return s
}

func minU(a, b uint64) uint64 {
	if a < b {
		return a
	}
	return b
}

var planWeights = []struct {
	plan string
	w    int
}{
	{"valid", 30}, {"undersigned", 30}, {"binding", 12}, {"replay-same", 4}, {"replay-other", 9}, {"replay-raw", 2},
	{"unknown", 5}, {"noop", 4}, {"update-nonmember", 2}, {"selfsign", 3},
}

func (g *gen) pickPlan() string {
	t := 0
	for _, p := range planWeights {
		t += p.w
	}
	x := g.rng.Intn(t)
	for _, p := range planWeights {
		if x < p.w {
			return p.plan
		}
		x -= p.w
	}
	return "valid"
}
