package main

// Independent oracle for C14. Nothing in this file uses code of the repository
// under test: requests are decoded with encoding/json into the oracle's own
// structures, signatures are verified with crypto/ed25519 of the Go standard
// library, the 2/3 comparison is done in math/big.

import (
	"bytes"
	"crypto/ed25519"
	"encoding/hex"
	"encoding/json"
	"math"
	"math/big"
	"sort"
	"strconv"
	"strings"
	"time"
)

// wire format of an administrative request (as the operators' client writes it)
type oSig struct {
	PubKey    []byte `json:"pubkey"`
	Signature []byte `json:"signature"`
}

type oCmd struct {
	CmdType  string    `json:"cmdtype"`
	Msg      []byte    `json:"msg"`
	SelfSign []byte    `json:"sigs"`
	Time     time.Time `json:"time"`
	Nonce    uint64    `json:"nonce"`
	SInfos   []oSig    `json:"siginfos"`
}

type oAttr struct {
	PubKey []byte `json:"pubKey,omitempty"`
	Power  int64  `json:"power,omitempty"`
	Cmd    string `json:"cmd"`
	Addr   []byte `json:"addr"`
	Nonce  uint64 `json:"nonce"`
}

const (
	cmdTypeChange = "changeValidator"
	cmdAdd        = "add_peer"
	cmdUpdate     = "update_node"
	cmdRemove     = "remove_node"
)

// model is what the oracle believes: the validator set in force and the
// account nonces of the EVM state.
type model struct {
	members map[string]int64  // hex(pubkey) -> power
	nonces  map[string]uint64 // hex(address) -> nonce
}

func newModel() *model {
	return &model{members: map[string]int64{}, nonces: map[string]uint64{}}
}

func (m *model) copyMembers() map[string]int64 {
	c := make(map[string]int64, len(m.members))
	for k, v := range m.members {
		c[k] = v
	}
	return c
}

func bigOf(p int64) *big.Int { return big.NewInt(p) }

func totalOf(members map[string]int64) *big.Int {
	t := new(big.Int)
	for _, p := range members {
		t.Add(t, big.NewInt(p))
	}
	return t
}

// pw is a voting power / accum; written as a decimal string so that witnesses
// keep all 63 bits (JSON numbers pass through float64 on the way to the parent).
type pw int64

func (p pw) MarshalJSON() ([]byte, error) {
	return []byte(`"` + strconv.FormatInt(int64(p), 10) + `"`), nil
}
func (p *pw) UnmarshalJSON(b []byte) error {
	v, err := strconv.ParseInt(strings.Trim(string(b), `"`), 10, 64)
	*p = pw(v)
	return err
}

type memberView struct {
	Pub   string `json:"pub"`
	Power pw     `json:"power"`
}

func viewOf(members map[string]int64) []memberView {
	out := make([]memberView, 0, len(members))
	for k, v := range members {
		out = append(out, memberView{k, pw(v)})
	}
	sort.Slice(out, func(i, j int) bool { return out[i].Pub < out[j].Pub })
	return out
}

func sameMembers(a, b map[string]int64) bool {
	if len(a) != len(b) {
		return false
	}
	for k, v := range a {
		if w, ok := b[k]; !ok || w != v {
			return false
		}
	}
	return true
}

// effect of one accepted request on the next validator set
type effect struct {
	Cmd   string `json:"cmd"`
	Pub   string `json:"pub"`
	Power pw     `json:"power"`
}

// tallies under the property's rule and under laxer rules; only Strict decides,
// the others merely name the class of a violation.
type tallies struct {
	Strict                                       string `json:"strict_distinct_exact_lengths"`
	PerEntry                                     string `json:"per_entry_exact_lengths"`
	LaxLen                                       string `json:"distinct_prefix_lengths"`
	PerEntryLax                                  string `json:"per_entry_prefix_lengths"`
	Total                                        string `json:"total_power"`
	Entries                                      int    `json:"entries"`
	ValidDistinct                                int    `json:"valid_distinct_signers"`
	strict, perEntry, laxLen, perEntryLax, total *big.Int
}

type verdict struct {
	Executed bool     `json:"tx_executed"` // the EVM transaction itself is well-formed (nonce)
	Accept   bool     `json:"accept"`
	Reasons  []string `json:"refusal_reasons,omitempty"`
	Effect   *effect  `json:"effect,omitempty"` // nil: nothing changes (refused or no-op)
	Tally    *tallies `json:"tally,omitempty"`
	Cmd      string   `json:"cmd,omitempty"`
}

func moreThanTwoThirds(sum, total *big.Int) bool {
	// sum > 2/3 total  <=>  3 sum > 2 total
	l := new(big.Int).Mul(sum, big.NewInt(3))
	r := new(big.Int).Mul(total, big.NewInt(2))
	return l.Cmp(r) > 0
}

func padTo(b []byte, n int) []byte {
	out := make([]byte, n)
	copy(out, b)
	return out
}

func tally(members map[string]int64, msg []byte, entries []oSig) *tallies {
	t := &tallies{strict: new(big.Int), perEntry: new(big.Int), laxLen: new(big.Int), perEntryLax: new(big.Int), total: totalOf(members), Entries: len(entries)}
	seenStrict := map[string]bool{}
	seenLax := map[string]bool{}
	for _, e := range entries {
		// the property's rule: a key is 32 bytes, a signature 64 bytes
		if len(e.PubKey) == ed25519.PublicKeySize && len(e.Signature) == ed25519.SignatureSize {
			k := hex.EncodeToString(e.PubKey)
			if p, ok := members[k]; ok && p > 0 && ed25519.Verify(ed25519.PublicKey(e.PubKey), msg, e.Signature) {
				t.perEntry.Add(t.perEntry, big.NewInt(p))
				if !seenStrict[k] {
					seenStrict[k] = true
					t.strict.Add(t.strict, big.NewInt(p))
				}
			}
		}
		// laxer: only the first 32 / 64 bytes are looked at, short ones zero-padded
		pk := padTo(e.PubKey, ed25519.PublicKeySize)
		sg := padTo(e.Signature, ed25519.SignatureSize)
		k := hex.EncodeToString(pk)
		if p, ok := members[k]; ok && p > 0 && ed25519.Verify(ed25519.PublicKey(pk), msg, sg) {
			t.perEntryLax.Add(t.perEntryLax, big.NewInt(p))
			if !seenLax[k] {
				seenLax[k] = true
				t.laxLen.Add(t.laxLen, big.NewInt(p))
			}
		}
	}
	t.ValidDistinct = len(seenStrict)
	t.Strict, t.PerEntry, t.LaxLen, t.PerEntryLax, t.Total = t.strict.String(), t.perEntry.String(), t.laxLen.String(), t.perEntryLax.String(), t.total.String()
	return t
}

// judge decides one transaction. inforce is the validator set in force for the
// block (requests are judged against it, as the plugin documents); m.nonces is
// advanced for an executed transaction. sender is the account that signed the
// EVM transaction, txNonce its nonce field, payloadFrom the account named in
// the 0xfe call input (== sender when the request goes through the Admin
// contract), txdata the tagged request bytes.
func (m *model) judge(inforce map[string]int64, sender []byte, txNonce uint64, payloadFrom []byte, txdata []byte) verdict {
	v := verdict{}
	sk := hex.EncodeToString(sender)
	if m.nonces[sk] != txNonce {
		v.Reasons = append(v.Reasons, "tx-nonce")
		return v
	}
	v.Executed = true
	m.nonces[sk]++ // the state transition bumps the sender's nonce whether or not the call succeeds

	refuse := func(r string) { v.Reasons = append(v.Reasons, r) }
	data := txdata
	if len(data) > 4 {
		data = data[4:] // "zaop" tag
	}
	var cmd oCmd
	if err := json.Unmarshal(data, &cmd); err != nil {
		refuse("bad-json")
		return v
	}
	if cmd.CmdType != cmdTypeChange {
		refuse("unknown-cmdtype")
	}
	var attr oAttr
	if err := json.Unmarshal(cmd.Msg, &attr); err != nil {
		refuse("bad-msg")
		return v
	}
	v.Cmd = attr.Cmd
	// (1) signatures of distinct current validators with power > 0 over exactly cmd.Msg, > 2/3 of total
	v.Tally = tally(inforce, cmd.Msg, cmd.SInfos)
	if !moreThanTwoThirds(v.Tally.strict, v.Tally.total) {
		refuse("tally")
	}
	// (2) the submitting account's correct nonce
	if !bytes.Equal(payloadFrom, sender) {
		refuse("from-not-sender")
	}
	if !bytes.Equal(attr.Addr, sender) {
		refuse("addr-not-sender")
	}
	if attr.Nonce < txNonce {
		refuse("nonce-stale")
	} else if attr.Nonce > txNonce {
		refuse("nonce-future")
	}
	// (3) the command
	if len(attr.PubKey) != ed25519.PublicKeySize {
		refuse("bad-target-key")
		return v
	}
	target := hex.EncodeToString(attr.PubKey)
	cur, isMember := inforce[target]
	var eff *effect
	switch attr.Cmd {
	case cmdAdd:
		if len(cmd.SelfSign) != ed25519.SignatureSize || !ed25519.Verify(ed25519.PublicKey(attr.PubKey), cmd.Msg, cmd.SelfSign) {
			refuse("self-sign")
		}
		if !isMember {
			eff = &effect{cmdAdd, target, pw(attr.Power)}
		}
	case cmdUpdate:
		if !isMember {
			refuse("update-non-member")
		} else if cur != attr.Power {
			eff = &effect{cmdUpdate, target, pw(attr.Power)}
		}
	case cmdRemove:
		if isMember {
			eff = &effect{cmdRemove, target, 0}
		}
	default:
		refuse("unknown-cmd")
	}
	if len(v.Reasons) == 0 {
		v.Accept = true
		v.Effect = eff
	}
	return v
}

// applyEffects gives the next set: effects of the accepted requests of a block
// in block order; add/update set the power (insert when absent), remove deletes.
func applyEffects(inforce map[string]int64, effs []*effect) map[string]int64 {
	next := make(map[string]int64, len(inforce)+1)
	for k, v := range inforce {
		next[k] = v
	}
	for _, e := range effs {
		if e == nil {
			continue
		}
		switch e.Cmd {
		case cmdAdd, cmdUpdate:
			next[e.Pub] = int64(e.Power)
		case cmdRemove:
			delete(next, e.Pub)
		}
	}
	return next
}

// wrappedThresholdPasses reproduces int64 arithmetic `sum > total*2/3` with
// wrap-around, only to name the class of a violation.
func wrappedThresholdPasses(sum, total *big.Int) bool {
	if !sum.IsInt64() || !total.IsInt64() {
		return false
	}
	t := total.Int64()
	return sum.Int64() > t*2/3 // wraps for t > MaxInt64/2
}

// classOfWrongAccept names the defect class when the real code changed the set
// on a request the oracle refuses. The name is built from the oracle's refusal
// reasons: for a tally refusal from which laxer rule would have let the request
// through, for a binding refusal from what was not bound.
func classOfWrongAccept(v verdict, replayOfAccepted bool, replayOther bool) string {
	has := map[string]bool{}
	for _, r := range v.Reasons {
		has[r] = true
	}
	var parts []string
	if has["tally"] && v.Tally != nil {
		t := v.Tally
		switch {
		case moreThanTwoThirds(t.perEntry, t.total):
			parts = append(parts, "duplicate-signer-entries-reach-two-thirds")
		case moreThanTwoThirds(t.laxLen, t.total):
			parts = append(parts, "malformed-length-entry-counted")
		case moreThanTwoThirds(t.perEntryLax, t.total):
			parts = append(parts, "duplicate-and-malformed-length-entries-counted")
		case t.total.Cmp(big.NewInt(math.MaxInt64/2)) > 0 && wrappedThresholdPasses(t.perEntryLax, t.total):
			// 2*total does not fit into int64
			parts = append(parts, "two-thirds-threshold-overflow-accepts-undersigned")
		case new(big.Int).Mul(t.strict, big.NewInt(3)).Cmp(new(big.Int).Mul(t.total, big.NewInt(2))) == 0 && t.total.Sign() > 0:
			parts = append(parts, "exactly-two-thirds-accepted")
		default:
			parts = append(parts, "undersigned-request-accepted")
		}
	}
	switch {
	case has["from-not-sender"]:
		// the account named in the payload is not the submitter: nonce and address labels, which are
		// relative to the submitter, say nothing more
		if replayOfAccepted && replayOther {
			parts = append(parts, "accepted-request-replayable-by-other-sender")
		} else {
			parts = append(parts, "request-naming-another-account-accepted")
		}
	case has["addr-not-sender"] || has["nonce-stale"] || has["nonce-future"]:
		var b []string
		for _, r := range []string{"addr-not-sender", "nonce-stale", "nonce-future"} {
			if has[r] {
				b = append(b, r)
			}
		}
		if replayOfAccepted {
			parts = append(parts, "accepted-request-replayable:"+strings.Join(b, "+"))
		} else {
			parts = append(parts, "request-with-wrong-nonce-or-address-accepted:"+strings.Join(b, "+"))
		}
	}
	var rest []string
	for r := range has {
		switch r {
		case "tally", "from-not-sender", "addr-not-sender", "nonce-stale", "nonce-future":
		default:
			rest = append(rest, r)
		}
	}
	sort.Strings(rest)
	for _, r := range rest {
		parts = append(parts, "refusable-request-accepted:"+r)
	}
	return strings.Join(parts, "+")
}

// strictTallyPasses tells whether the signature list of a stored request still
// holds > 2/3 of the given set (used by the generator to keep replays from
// mixing two refusal reasons).
func strictTallyPasses(inforce map[string]int64, txdata []byte) bool {
	data := txdata
	if len(data) > 4 {
		data = data[4:]
	}
	var cmd oCmd
	if json.Unmarshal(data, &cmd) != nil {
		return false
	}
	t := tally(inforce, cmd.Msg, cmd.SInfos)
	return moreThanTwoThirds(t.strict, t.total)
}
