package main

// The real side: the real plugin.AdminOp, reached through the real 0xfe
// precompile inside the real EVM. Two paths:
//
//	"evm": core.ApplyTransaction on an in-memory go-ethereum state that was
//	       initialised with core.DefaultGenesis() (the Admin contract at
//	       0x02000000) - exactly what EVMApp.executeOriginTx does per tx;
//	"app": the full EVMApp (engine E4, evmdrive) on a scratch directory,
//	       OnExecute/OnCommit per block, real restart by Close + Open.
//
// Around the transactions a replica does what State.ExecBlock does:
// valSet := Validators.Copy(); next := valSet.Copy(); BeginBlock; txs;
// EndBlock(next); next.IncrementAccum(1); Validators = next.
// vm.DefaultAdminContract is a process-wide object, so one worker process
// drives one replica at a time.

import (
	"bytes"
	"encoding/hex"
	"fmt"
	"math"
	"math/big"
	"os"
	"time"

	"github.com/spf13/viper"

	evmapp "github.com/dappledger/AnnChain/chain/app/evm"
	ctypes "github.com/dappledger/AnnChain/chain/types"
	"github.com/dappledger/AnnChain/eth/common"
	"github.com/dappledger/AnnChain/eth/core"
	estate "github.com/dappledger/AnnChain/eth/core/state"
	etypes "github.com/dappledger/AnnChain/eth/core/types"
	"github.com/dappledger/AnnChain/eth/core/vm"
	"github.com/dappledger/AnnChain/eth/ethdb"
	"github.com/dappledger/AnnChain/eth/params"
	"github.com/dappledger/AnnChain/eth/rlp"
	crypto "github.com/dappledger/AnnChain/gemmill/go-crypto"
	wire "github.com/dappledger/AnnChain/gemmill/go-wire"
	"github.com/dappledger/AnnChain/gemmill/p2p"
	"github.com/dappledger/AnnChain/gemmill/plugin"
	"github.com/dappledger/AnnChain/gemmill/refuse_list"
	"github.com/dappledger/AnnChain/gemmill/types"

	"verif/evmdrive"
)

type cbObs struct {
	From string `json:"from"`
	Err  string `json:"err"`
}

type txObs struct {
	Executed  bool    `json:"tx_executed"`
	TxErr     string  `json:"tx_error,omitempty"`
	Failed    bool    `json:"evm_call_failed"`
	Callbacks []cbObs `json:"plugin_calls"`
}

type setObs struct {
	Members []memberView `json:"members"` // in the order of the real set
	Accums  []pw         `json:"accums"`
	Hash    string       `json:"hash"`
}

func (s setObs) asMap() (map[string]int64, bool) {
	m := map[string]int64{}
	dup := false
	for _, v := range s.Members {
		if _, ok := m[v.Pub]; ok {
			dup = true
		}
		m[v.Pub] = int64(v.Power)
	}
	return m, dup
}

func (s setObs) equal(o setObs) bool {
	if s.Hash != o.Hash || len(s.Members) != len(o.Members) {
		return false
	}
	for i := range s.Members {
		if s.Members[i] != o.Members[i] || s.Accums[i] != o.Accums[i] {
			return false
		}
	}
	return true
}

func observeSet(vs *types.ValidatorSet) setObs {
	o := setObs{Hash: hex.EncodeToString(vs.Hash())}
	for _, v := range vs.Validators {
		o.Members = append(o.Members, memberView{hex.EncodeToString(crypto.GetNodePubkeyBytes(v.PubKey)), pw(v.VotingPower)})
		o.Accums = append(o.Accums, pw(v.Accum))
	}
	return o
}

type blockObs struct {
	Txs          []txObs `json:"txs"`
	EndBlockErr  string  `json:"endblock_error,omitempty"`
	Panic        string  `json:"panic,omitempty"`
	CurMutated   bool    `json:"current_set_mutated"`
	Next         setObs  `json:"next_set"`
	IncrementErr string  `json:"increment_error,omitempty"`
}

// ---- the process-wide callback: what Node.ExecAdminTx -> Angine.ExecAdminTx do

var (
	activePlugin *plugin.AdminOp
	cbLog        []cbObs
)

func installCallback() {
	vm.DefaultAdminContract.SetCallback(func(app *vm.AdminDBApp, tx []byte) error {
		var err error
		if activePlugin == nil {
			err = fmt.Errorf("there is no plugin.AdminOp")
		} else {
			err = activePlugin.ExecTX(app, tx)
		}
		o := cbObs{From: hex.EncodeToString(app.From())}
		if err != nil {
			o.Err = err.Error()
		}
		cbLog = append(cbLog, o)
		return err
	})
}

// ---- replica

type replica struct {
	nodeKey crypto.PrivKey // this replica's own validator key: the outcome of a request must not depend on it
	name    string
	path    string              // "evm" | "app"
	cur     *types.ValidatorSet // State.Validators: the plugin holds a pointer to this field
	last    *types.ValidatorSet
	plug    *plugin.AdminOp
	sw      *p2p.Switch
	rl      *refuse_list.RefuseList

	// evm path
	db   ethdb.Database
	root common.Hash
	// app path
	app *evmdrive.App
	dir string
}

// nodeKeyOf returns the private key (engine type) of the generated validator with this public key.
func nodeKeyOf(pubHex string) crypto.PrivKey {
	for _, k := range edCache {
		if hex.EncodeToString(k.Pub) == pubHex {
			var out crypto.PrivKeyEd25519
			copy(out[:], k.Priv)
			return out
		}
	}
	var out crypto.PrivKeyEd25519
	copy(out[:], edKeyOf("stranger-node").Priv)
	return out
}

func genesisSet(vals []memberView) *types.ValidatorSet {
	vs := make([]*types.Validator, len(vals))
	for i, m := range vals {
		pk, _ := hex.DecodeString(m.Pub)
		vs[i] = types.NewValidator(crypto.SetNodePubkey(pk), int64(m.Power), m.Power > 0)
	}
	return types.NewValidatorSet(vs)
}

func (r *replica) initPlugin() {
	// what Angine.InitPlugins does for "adminOp"
	r.plug = &plugin.AdminOp{}
	r.plug.Init(&plugin.InitParams{
		Switch:     r.sw,
		RefuseList: r.rl,
		Validators: &r.cur,
		PrivKey:    r.nodeKey, // the engine passes the node's validator key (Angine.InitPlugins)
	})
}

func newReplica(name, path string, vals []memberView, scratch string) (*replica, error) {
	r := &replica{name: name, path: path}
	// every replica is somebody: the continuous one the first genesis validator, the restarted one
	// the last, the late one an outsider
	who := "stranger-node"
	switch {
	case name == "continuous" && len(vals) > 0:
		who = ""
		r.nodeKey = nodeKeyOf(vals[0].Pub)
	case name == "restarted" && len(vals) > 0:
		who = ""
		r.nodeKey = nodeKeyOf(vals[len(vals)-1].Pub)
	}
	if who != "" {
		var k crypto.PrivKeyEd25519
		copy(k[:], edKeyOf(who).Priv)
		r.nodeKey = k
	}
	r.cur = genesisSet(vals)
	r.last = types.NewValidatorSet(nil)
	r.sw = p2p.NewSwitch(viper.New())
	r.rl = refuse_list.NewRefuseList("memdb", "")
	r.initPlugin()
	switch path {
	case "evm":
		r.db = ethdb.NewMemDatabase()
		g := core.DefaultGenesis()
		r.root = g.ToBlock(r.db).Root()
	case "app":
		r.dir = scratch
		if err := os.MkdirAll(scratch, 0755); err != nil {
			return nil, err
		}
		a, err := evmdrive.Open(scratch, 0)
		if err != nil {
			return nil, err
		}
		r.app = a
	}
	return r, nil
}

func (r *replica) close() {
	if r.app != nil {
		r.app.Close()
		r.app = nil
	}
	if r.rl != nil {
		r.rl.Stop()
	}
}

// restart rebuilds what a restarted node has: the validator set from its
// persisted bytes (go-wire, as State.Save/LoadState), a fresh plugin, the
// application re-opened from its databases (path app: the 128 MiB database
// caches make every open cost about a CPU second, so the application is
// re-opened at one block of the case; set and plugin are rebuilt at every block).
func (r *replica) restart(reopenApp bool) error {
	bz := wire.BinaryBytes(r.cur)
	var n int
	var err error
	r.cur = wire.ReadBinary(&types.ValidatorSet{}, bytes.NewReader(bz), 0, &n, &err).(*types.ValidatorSet)
	if err != nil {
		return fmt.Errorf("reload validator set: %v", err)
	}
	bz = wire.BinaryBytes(r.last)
	r.last = wire.ReadBinary(&types.ValidatorSet{}, bytes.NewReader(bz), 0, &n, &err).(*types.ValidatorSet)
	if err != nil {
		return fmt.Errorf("reload last validator set: %v", err)
	}
	r.sw = p2p.NewSwitch(viper.New())
	r.initPlugin()
	if r.path == "app" && reopenApp {
		r.app.Close()
		a, err := evmdrive.Open(r.dir, 0)
		if err != nil {
			return err
		}
		r.app = a
	}
	return nil
}

var evmCfg = vm.Config{EVMGasLimit: evmapp.EVMGasLimit}

func (r *replica) execTxsEVM(height int64, txs [][]byte) []txObs {
	out := make([]txObs, len(txs))
	sdb, err := estate.New(r.root, estate.NewDatabase(r.db))
	if err != nil {
		panic(err)
	}
	blk := evmdrive.Block(height, txs)
	blockHash := common.BytesToHash(blk.Hash())
	header := &etypes.Header{
		ParentHash: common.BytesToHash(blk.Header.LastBlockID.Hash),
		Difficulty: big.NewInt(0),
		GasLimit:   math.MaxUint64,
		Time:       big.NewInt(blk.Header.Time.Unix()),
		Number:     big.NewInt(height),
	}
	bc := evmapp.NewBlockChain(r.db)
	for i, raw := range txs {
		tx := new(etypes.Transaction)
		if err := rlp.DecodeBytes(raw, tx); err != nil {
			out[i].TxErr = "decode: " + err.Error()
			continue
		}
		snap := sdb.Snapshot()
		cbLog = nil
		sdb.Prepare(common.BytesToHash(types.Tx(raw).Hash()), blockHash, i)
		gp := new(core.GasPool).AddGas(math.MaxUint64)
		receipt, _, err := core.ApplyTransaction(params.MainnetChainConfig, bc, nil, gp, sdb, header, tx, new(uint64), evmCfg)
		if err != nil {
			sdb.RevertToSnapshot(snap)
			out[i].TxErr = err.Error()
		} else {
			out[i].Executed = true
			out[i].Failed = receipt.Status == etypes.ReceiptStatusFailed
		}
		out[i].Callbacks = cbLog
		cbLog = nil
	}
	root, err := sdb.Commit(true)
	if err != nil {
		panic(err)
	}
	if err := sdb.Database().TrieDB().Commit(root, false); err != nil {
		panic(err)
	}
	r.root = root
	return out
}

func (r *replica) execTxsApp(height int64, txs [][]byte) ([]txObs, error) {
	out := make([]txObs, len(txs))
	cbLog = nil
	res, err := r.app.Exec(height, txs)
	if err != nil {
		return nil, err
	}
	valid := map[string]int{}
	for _, t := range res.Valid {
		valid[string(t)]++
	}
	for i, raw := range txs {
		if valid[string(raw)] > 0 {
			valid[string(raw)]--
			out[i].Executed = true
		} else {
			out[i].TxErr = "reported invalid"
		}
	}
	// the application does not tell which call belongs to which transaction;
	// the calls are attributed in order to the executed transactions that reach 0xfe
	calls := cbLog
	cbLog = nil
	j := 0
	for i := range out {
		if out[i].Executed && j < len(calls) {
			out[i].Callbacks = []cbObs{calls[j]}
			j++
		}
	}
	if j < len(calls) && len(out) > 0 {
		out[len(out)-1].Callbacks = append(out[len(out)-1].Callbacks, calls[j:]...)
	}
	return out, nil
}

// execBlock mirrors State.ExecBlock around the real plugin.
func (r *replica) execBlock(height int64, txs [][]byte) (obs blockObs) {
	defer func() {
		if p := recover(); p != nil {
			obs.Panic = fmt.Sprint(p)
		}
	}()
	curObj := r.cur
	curBefore := observeSet(curObj)
	valSet := r.cur.Copy()
	next := valSet.Copy()
	blk := evmdrive.Block(height, txs)
	activePlugin = r.plug
	if _, err := r.plug.BeginBlock(&plugin.BeginBlockParams{Block: blk}); err != nil {
		obs.EndBlockErr = "beginblock: " + err.Error()
		return
	}
	if r.path == "evm" {
		obs.Txs = r.execTxsEVM(height, txs)
	} else {
		t, err := r.execTxsApp(height, txs)
		if err != nil {
			obs.Panic = "app: " + err.Error()
			return
		}
		obs.Txs = t
	}
	_, err := r.plug.EndBlock(&plugin.EndBlockParams{Block: blk, ChangedValidators: make([]*types.ValidatorAttr, 0), NextValidatorSet: next})
	// the set in force for this block must not have been touched
	obs.CurMutated = !curBefore.equal(observeSet(curObj))
	if err != nil {
		// State.ExecBlock returns the error: the state keeps the old sets
		obs.EndBlockErr = err.Error()
		r.cur = curObj
		obs.Next = observeSet(r.cur)
		return
	}
	if next.Size() > 0 {
		next.IncrementAccum(1)
	} else {
		obs.IncrementErr = "empty next validator set"
	}
	r.last = valSet
	r.cur = next
	obs.Next = observeSet(r.cur)
	return
}

// query sends a read-only contract query (QueryType_Contract) to this replica's application.
func (r *replica) query(tx []byte) (code string, calls []cbObs, perr string) {
	defer func() {
		if p := recover(); p != nil {
			perr = fmt.Sprint(p)
		}
	}()
	activePlugin = r.plug
	cbLog = nil
	res := r.app.Query(append([]byte{byte(ctypes.QueryType_Contract)}, tx...))
	calls = cbLog
	cbLog = nil
	return fmt.Sprint(res.Code), calls, ""
}

var _ = time.Now
