package main

// The harness side of a connection to the syncing node's real TCP listener:
// secret-connection handshake, node-info and exchange-data handshake, then raw
// msgPackets (as checks/c08/reactors.go does for a bare Switch).

import (
	"bufio"
	"bytes"
	"fmt"
	"io"
	"net"
	"strings"
	"sync"
	"time"

	crypto "github.com/dappledger/AnnChain/gemmill/go-crypto"
	wire "github.com/dappledger/AnnChain/gemmill/go-wire"
	gcmn "github.com/dappledger/AnnChain/gemmill/modules/go-common"
	"github.com/dappledger/AnnChain/gemmill/p2p"
	"github.com/dappledger/AnnChain/gemmill/types"
)

const bcCh = byte(0x40)

// mirrors of the (unexported) block-sync messages: same type bytes, same field order
type BcMsg interface{}
type xBlockRequest struct{ Height int64 }
type xBlockResponse struct{ Block *types.Block }
type xStatusResponse struct{ Height int64 }
type xStatusRequest struct{ Height int64 }

var _ = wire.RegisterInterface(
	struct{ BcMsg }{},
	wire.ConcreteType{&xBlockRequest{}, 0x10},
	wire.ConcreteType{&xBlockResponse{}, 0x11},
	wire.ConcreteType{&xStatusResponse{}, 0x20},
	wire.ConcreteType{&xStatusRequest{}, 0x21},
)

func encBC(m BcMsg) []byte { return wire.BinaryBytes(struct{ BcMsg }{m}) }

func decBC(b []byte) (m BcMsg) {
	defer func() {
		if r := recover(); r != nil {
			m = nil
		}
	}()
	if len(b) == 0 {
		return nil
	}
	var n int
	var err error
	m = wire.ReadBinary(struct{ BcMsg }{}, bytes.NewReader(b), 0, &n, &err).(struct{ BcMsg }).BcMsg
	if err != nil {
		return nil
	}
	return m
}

type xPacket struct {
	ChannelID byte
	EOF       byte
	Bytes     []byte
}

type inMsg struct {
	ch byte
	b  []byte
}

type rawPeer struct {
	name    string
	conn    net.Conn
	rd      *bufio.Reader
	wmtx    sync.Mutex
	in      chan inMsg
	closed  chan struct{}
	once    sync.Once
	recving map[byte][]byte
}

// dialPeer connects to the node's listener as a peer with the given identity.
func dialPeer(addr, name, network string, priv crypto.PrivKeyEd25519) (*rawPeer, error) {
	c, err := net.DialTimeout("tcp", addr, 5*time.Second)
	if err != nil {
		return nil, err
	}
	c.SetDeadline(time.Now().Add(20 * time.Second))
	sc, err := p2p.MakeSecretConnection(c, priv)
	if err != nil {
		c.Close()
		return nil, err
	}
	info := &p2p.NodeInfo{PubKey: priv.PubKey(), Moniker: name, Network: network, Version: "1.0.0", ListenAddr: "127.0.0.1:1"}
	var e1, e2 error
	gcmn.Parallel(func() {
		var k int
		wire.WriteBinary(info, sc, &k, &e1)
	}, func() {
		var k int
		wire.ReadBinary(new(p2p.NodeInfo), sc, 10240, &k, &e2)
	})
	if e1 != nil || e2 != nil {
		c.Close()
		return nil, fmt.Errorf("node info exchange: %v %v", e1, e2)
	}
	gcmn.Parallel(func() {
		var k int
		wire.WriteBinary(&p2p.ExchangeData{}, sc, &k, &e1)
	}, func() {
		var k int
		wire.ReadBinary(new(p2p.ExchangeData), sc, 1<<20, &k, &e2)
	})
	if e1 != nil || e2 != nil {
		c.Close()
		return nil, fmt.Errorf("exchange data: %v %v", e1, e2)
	}
	c.SetDeadline(time.Time{})
	rp := &rawPeer{name: name, conn: sc, rd: bufio.NewReaderSize(sc, 65536), in: make(chan inMsg, 8192), closed: make(chan struct{}), recving: map[byte][]byte{}}
	go rp.readLoop()
	return rp, nil
}

// dialRetry: the node may still be removing an older connection of the same identity.
func dialRetry(addr, name, network string, priv crypto.PrivKeyEd25519) (rp *rawPeer, err error) {
	for try := 0; try < 100; try++ {
		rp, err = dialPeer(addr, name, network, priv)
		if err == nil {
			// a duplicate is only noticed by the node after the handshake: the connection is closed right away
			if !rp.waitClosed(30 * time.Millisecond) {
				return rp, nil
			}
			err = fmt.Errorf("closed right after the handshake")
		} else if !strings.Contains(err.Error(), "EOF") && !strings.Contains(err.Error(), "reset") && !strings.Contains(err.Error(), "closed") {
			return nil, err
		}
		time.Sleep(20 * time.Millisecond)
	}
	return nil, err
}

func (rp *rawPeer) close() {
	rp.once.Do(func() {
		close(rp.closed)
		rp.conn.Close()
	})
}

func (rp *rawPeer) isClosed() bool {
	select {
	case <-rp.closed:
		return true
	default:
		return false
	}
}

func (rp *rawPeer) waitClosed(d time.Duration) bool {
	select {
	case <-rp.closed:
		return true
	case <-time.After(d):
		return false
	}
}

func (rp *rawPeer) readLoop() {
	defer rp.close()
	for {
		var n int
		var err error
		t := wire.ReadByte(rp.rd, &n, &err)
		if err != nil {
			return
		}
		switch t {
		case 0x01: // ping
			rp.writeRaw([]byte{0x02})
		case 0x02:
		case 0x03:
			pkt := wire.ReadBinary(xPacket{}, rp.rd, 0, &n, &err).(xPacket)
			if err != nil {
				return
			}
			rp.recving[pkt.ChannelID] = append(rp.recving[pkt.ChannelID], pkt.Bytes...)
			if pkt.EOF == 1 {
				m := inMsg{pkt.ChannelID, rp.recving[pkt.ChannelID]}
				rp.recving[pkt.ChannelID] = nil
				if m.ch != bcCh {
					continue
				}
				select {
				case rp.in <- m:
				default:
				}
			}
		default:
			return
		}
	}
}

func (rp *rawPeer) writeRaw(b []byte) error {
	rp.wmtx.Lock()
	defer rp.wmtx.Unlock()
	if rp.isClosed() {
		return io.ErrClosedPipe
	}
	rp.conn.SetWriteDeadline(time.Now().Add(10 * time.Second))
	_, err := rp.conn.Write(b)
	if err != nil {
		go rp.close()
	}
	return err
}

// send delivers a whole message on a channel as well-formed msgPackets.
func (rp *rawPeer) send(ch byte, msg []byte) error {
	var buf bytes.Buffer
	for {
		k := len(msg)
		if k > 1024 {
			k = 1024
		}
		eof := byte(0)
		if k == len(msg) {
			eof = 1
		}
		buf.WriteByte(0x03)
		buf.Write(wire.BinaryBytes(xPacket{ch, eof, msg[:k]}))
		msg = msg[k:]
		if eof == 1 {
			break
		}
	}
	return rp.writeRaw(buf.Bytes())
}
