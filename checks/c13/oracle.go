package main

// The oracle over what the syncing node stored, executed and ended up with.
//
//  (a) every block in S's block store is byte for byte the source chain's block of
//      that height (hash, parts header, bytes), and the commit stored with it carries,
//      by the oracle's own tally (crypto/ed25519 over the sign-bytes, set in force at
//      that height as the live node published it), more than 2/3 of the voting power
//      for exactly that block;
//  (b) blocks are executed in order, each once;
//  (c) the process stays alive (the parent judges a dead worker);
//  (d) with only the honest peer left the node reaches top-1 within 160 status rounds;
//  (e) when caught up: state (height, validator sets byte for byte incl. order, powers
//      and accumulators, AppHash, ReceiptsHash, LastBlockID), block store and application
//      state (nonces, contract storage, key-value store and the length of every key's update
//      history, receipts, balances) equal those
//      of the node that followed consensus live.

import (
	"bytes"
	"encoding/hex"
	"fmt"
	"runtime/pprof"
	"strconv"
	"strings"

	wire "github.com/dappledger/AnnChain/gemmill/go-wire"
	"github.com/dappledger/AnnChain/gemmill/types"

	"verif/lib"
)

func (d *director) mutAt(h int64) string {
	d.mtx.Lock()
	defer d.mtx.Unlock()
	if m := d.lastMut[h]; m != "" {
		return m
	}
	if m := d.lastMut[h+1]; m != "" {
		return m
	}
	if d.spec.Kind == "control" {
		return "none-all-honest"
	}
	return "none-at-this-height"
}

// checkStore compares what S stored since the last call. Director goroutine only.
func (d *director) checkStore() {
	bs := d.node.Angine.VerifBlockStore()
	sh := bs.Height()
	for h := d.checked + 1; h <= sh; h++ {
		blk := bs.LoadBlock(h)
		meta := bs.LoadBlockMeta(h)
		sc := bs.LoadSeenCommit(h)
		if h > d.c.top {
			d.viol("block-stored-beyond-the-source-chain:"+d.mutAt(h), fmt.Sprintf("the node stored a block at height %d, the source chain ends at %d", h, d.c.top), nil)
			return
		}
		if blk == nil || meta == nil {
			d.viol("stored-block-unreadable:"+d.mutAt(h), fmt.Sprintf("block %d of the syncing node's store cannot be loaded", h), nil)
			return
		}
		got := wire.BinaryBytes(blk)
		want := d.c.ids[h]
		if !bytes.Equal(got, d.c.raw[h]) || !bytes.Equal(meta.Hash, want.Hash) || !meta.PartsHeader.Equals(want.PartsHeader) {
			d.viol("forged-block-stored:"+d.mutAt(h), fmt.Sprintf("the block stored at height %d is not the source chain's block: stored hash %X parts %v, source hash %X parts %v, bytes equal: %v", h, meta.Hash, meta.PartsHeader, want.Hash, want.PartsHeader, bytes.Equal(got, d.c.raw[h])),
				map[string]interface{}{"height": h, "stored_block": fmt.Sprintf("%v", blk), "source_block_bytes": hex.EncodeToString(d.c.raw[h]), "stored_block_bytes": hex.EncodeToString(got)})
			return
		}
		gotP, total, why := d.c.tally(h, want, sc)
		if !moreThanTwoThirds(gotP, total) {
			d.viol("executed-without-two-thirds:"+d.mutAt(h), fmt.Sprintf("block %d was stored and executed with a commit that carries %d of %d voting power of the set in force at %d for it (%s)", h, gotP, total, h, why),
				map[string]interface{}{"height": h, "commit": fmt.Sprintf("%v", sc)})
			return
		}
		d.run.Count("stored_blocks_equal_to_source", 1)
		d.run.Count("stored_commits_tallied_above_two_thirds", 1)
		if sc != nil && !bytes.Equal(wire.BinaryBytes(sc), wire.BinaryBytes(d.c.block(clampH(h+1, d.c.top)).LastCommit)) {
			d.run.Count("stored_seen_commits_that_differ_from_the_chain_but_justify", 1)
		}
		d.checked = h
	}
}

func (d *director) report() {
	d.mtx.Lock()
	ex := append([]int64{}, d.executed...)
	ae := append([]string{}, d.applyErrs...)
	to := d.timeouts
	d.mtx.Unlock()
	for i, h := range ex {
		if h != int64(i)+1+d.execBase {
			if d.spec.restarted() {
				// the application had committed execBase when the node was built again: the next block given to
				// it must be execBase+1 (a lower one is applied twice, a higher one skips a block)
				d.viol("block-executed-twice-or-skipped", fmt.Sprintf("the application of the restarted node was at height %d; execution trace after the restart %v: position %d is height %d", d.execBase, ex, i+1, h), nil)
				break
			}
			d.viol("block-executed-out-of-order:"+d.mutAt(h), fmt.Sprintf("execution trace %v: position %d is height %d", ex, i+1, h), nil)
			break
		}
	}
	if len(ae) > 0 {
		d.viol("executer-failed:"+d.lastMutName(), fmt.Sprintf("ApplyBlock failed on a block that had passed the verifier: %v", ae), nil)
	}
	d.run.Count("blocks_executed", int64(len(ex)))
	d.run.Count("pool_peer_timeouts", int64(to))
	crossed := 0
	for _, ch := range d.c.changes {
		if ch <= d.checked {
			crossed++
		}
	}
	d.run.Count("validator_set_changes_crossed", int64(crossed))
	if d.spec.ID < 4 {
		d.mtx.Lock()
		var eps []string
		for _, e := range d.eps {
			eps = append(eps, fmt.Sprintf("%s@%d(%s)=%s", e.mut.name, e.spec.T, d.c.near(e.spec.T), e.outcome))
		}
		ve := append([]string{}, d.valErrs...)
		d.mtx.Unlock()
		if len(ve) > 8 {
			ve = ve[:8]
		}
		d.run.Sample(map[string]interface{}{"scenario": d.spec.ID, "kind": d.spec.Kind, "episodes": eps, "synced_to": d.checked, "executed": len(ex), "first_validation_errors": ve, "set_changes_at": d.c.changes})
	}
}

func diffField(name string, got, want string) string {
	if got == want {
		return ""
	}
	if len(got) > 400 {
		got = got[:400] + "..."
	}
	if len(want) > 400 {
		want = want[:400] + "..."
	}
	return fmt.Sprintf("%s: syncing node %s, live node %s", name, got, want)
}

// compareFinal: the node has caught up (and normally switched to consensus).
func (d *director) compareFinal() {
	c := d.c
	st := d.node.Angine.VerifState()
	bs := d.node.Angine.VerifBlockStore()
	h := st.LastBlockHeight
	if h != bs.Height() {
		d.viol("state-differs-after-sync:state-height-vs-store-height", fmt.Sprintf("state is at %d, block store at %d", h, bs.Height()), nil)
		return
	}
	if h != c.top-1 && h != c.top {
		d.viol("state-differs-after-sync:height", fmt.Sprintf("caught up at height %d, source chain top %d", h, c.top), nil)
		return
	}
	ref, ok := c.d.Obs[strconv.FormatInt(h, 10)]
	if !ok {
		d.run.Inconclusive(fmt.Sprintf("the live node's state after height %d was not recorded", h))
		return
	}
	mine := obsOf(st)
	type fld struct{ name, got, want string }
	for _, f := range []fld{
		{"LastBlockID", mine.LastBlockID, ref.LastBlockID},
		{"AppHash", mine.AppHash, ref.AppHash},
		{"ReceiptsHash", mine.ReceiptsHash, ref.ReceiptsHash},
	} {
		if s := diffField(f.name, f.got, f.want); s != "" {
			d.viol("state-differs-after-sync:"+f.name, fmt.Sprintf("at height %d %s", h, s), nil)
			return
		}
	}
	for _, f := range []fld{{"Validators", mine.Validators, ref.Validators}, {"LastValidators", mine.LastValidators, ref.LastValidators}} {
		if f.got == f.want {
			continue
		}
		gs, e1 := decodeSet(f.got)
		ws, e2 := decodeSet(f.want)
		sub := "bytes"
		if e1 == nil && e2 == nil {
			if !sameMembers(membersOf(gs), membersOf(ws)) {
				sub = "members-powers-order"
			} else {
				sub = "accum-or-flags"
			}
		}
		d.viol("state-differs-after-sync:"+f.name+":"+sub, fmt.Sprintf("at height %d the %s of the syncing node differ from the live node's:\n%v\nvs\n%v", h, f.name, gs, ws), nil)
		return
	}
	d.run.Count("final_states_equal", 1)
	if d.spec.Kind == "final" && len(d.eps) == 1 && d.eps[0].outcome == "justified-block-refused" {
		d.run.Count("final_altered_commits_refused_by_the_verifier", 1)
		d.run.Count("final_altered_commits_decided", 1)
	} else if d.spec.Kind == "final" && len(d.eps) == 1 && d.eps[0].lastT1 != nil {
		// did the altered commit reach the store (as the seen commit of the height the node switched at)?
		if m, ok := decBC(d.eps[0].lastT1).(*xBlockResponse); ok && m.Block != nil && m.Block.LastCommit != nil {
			if sc := bs.LoadSeenCommit(d.eps[0].spec.T); sc != nil && bytes.Equal(wire.BinaryBytes(sc), wire.BinaryBytes(m.Block.LastCommit)) {
				d.run.Count("final_altered_commits_that_reached_the_store", 1)
				d.run.Count("final_altered_commits_decided", 1)
			}
		}
	}
	// the header of the next block (which S has not applied) states the same hashes
	if h+1 <= c.top {
		nh := c.hdr[h+1]
		if !bytes.Equal(nh.AppHash, st.AppHash) || !bytes.Equal(nh.ReceiptsHash, st.ReceiptsHash) || !bytes.Equal(nh.ValidatorsHash, st.Validators.Hash()) {
			d.viol("state-differs-after-sync:next-header", fmt.Sprintf("block %d of the source chain records AppHash %X ReceiptsHash %X ValidatorsHash %X, the syncing node has %X %X %X", h+1, nh.AppHash, nh.ReceiptsHash, nh.ValidatorsHash, st.AppHash, st.ReceiptsHash, st.Validators.Hash()), nil)
			return
		}
	}
	// block store: everything was compared by checkStore; the store must not be ahead or behind
	d.checkStore()
	if d.checked != h {
		if !d.isFailed() {
			d.viol("state-differs-after-sync:block-store", fmt.Sprintf("block store compared up to %d, state at %d", d.checked, h), nil)
		}
		return
	}
	d.run.Count("final_block_stores_equal", 1)
	// application
	app := observeApp(d.node.Application, c.d.Txs)
	info := d.node.Application.Info()
	want := c.d.App
	if info.LastBlockHeight != h {
		d.viol("state-differs-after-sync:application-height", fmt.Sprintf("application at height %d, state at %d", info.LastBlockHeight, h), nil)
		return
	}
	if hex.EncodeToString(info.LastBlockAppHash) != ref.AppHash {
		d.viol("state-differs-after-sync:application-apphash", fmt.Sprintf("application hash %X, live node's state after %d: %s", info.LastBlockAppHash, h, ref.AppHash), nil)
		return
	}
	cmpMapU := func(name string, a, b map[string]uint64) bool {
		for k, v := range b {
			if a[k] != v {
				d.viol("state-differs-after-sync:application-"+name, fmt.Sprintf("%s of %s: syncing node %d, live node %d", name, k, a[k], v), nil)
				return false
			}
		}
		return true
	}
	cmpMapS := func(name string, a, b map[string]string) bool {
		if len(a) != len(b) {
			d.viol("state-differs-after-sync:application-"+name, fmt.Sprintf("%s: %d entries vs %d", name, len(a), len(b)), nil)
			return false
		}
		for k, v := range b {
			if a[k] != v {
				d.viol("state-differs-after-sync:application-"+name, fmt.Sprintf("%s of %s: syncing node %q, live node %q", name, k, a[k], v), nil)
				return false
			}
		}
		return true
	}
	if !cmpMapU("kv-history-length", app.KVHist, want.KVHist) {
		return
	}
	if !cmpMapU("nonce", app.Nonces, want.Nonces) || !cmpMapS("balance", app.Balances, want.Balances) || !cmpMapS("kv", app.KV, want.KV) || !cmpMapS("receipt", app.Receipts, want.Receipts) {
		return
	}
	if app.Counter != want.Counter {
		d.viol("state-differs-after-sync:application-contract-storage", fmt.Sprintf("counter contract: syncing node %s, live node %s", app.Counter, want.Counter), nil)
		return
	}
	if !cmpMapS("contract-storage", app.Slots, want.Slots) {
		return
	}
	d.run.Count("final_application_states_equal", 1)
	d.run.Count("receipts_compared", int64(len(want.Receipts)))
	d.run.Count("kv_history_lengths_compared", int64(len(want.KVHist)))
	if d.spec.Kind == "control" {
		d.run.Count("controls_passed", 1)
	}
	_ = types.VoteTypePrecommit
	_ = lib.Seed
}

func goroutineDump(filter ...string) string {
	var buf bytes.Buffer
	pprof.Lookup("goroutine").WriteTo(&buf, 2)
	var keep []string
	for _, g := range strings.Split(buf.String(), "\n\n") {
		ok := len(filter) == 0
		for _, f := range filter {
			if strings.Contains(g, f) {
				ok = true
			}
		}
		if ok {
			if len(g) > 2500 {
				g = g[:2500] + "\n..."
			}
			keep = append(keep, g)
		}
		if len(keep) >= 25 {
			break
		}
	}
	return strings.Join(keep, "\n\n")
}
