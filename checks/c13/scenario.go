package main

// One scenario = one worker process: the real syncing node S (fast_sync = true)
// plus the harness peers around it and the director that decides what each peer
// answers.
//
// Surgical scenarios: a list of episodes (target height T, mutation), sorted by
// the lowest tampered height. The honest peer H announces and serves the chain
// only below the lowest height the active episode tampers with; the three team
// (malicious) peers announce T+1 (T+2 for tampering that leaves T justified) and
// share the director: whichever of them is asked for a tampered height serves the
// tampered block (to every request for it while the episode is open), everything
// else up to T+1 is served genuinely. An episode ends when the node's verifier
// refused (log line "error in validation" of poolRoutine, seen through a zap core
// installed in place of the node's logger), when the sender was dropped in
// Receive, or (tampering that leaves T justified) when T was applied and the
// altered T+1 was refused as first block afterwards. Then every peer leaves and
// comes back, one at a time (a block stays in the pool's requester until its
// sender is removed; a blamed peer stays connected with stale requests). Between
// episodes requests are held. At the end the team leaves one by one, H announces
// and serves everything.
//
// Mix scenarios: H and the team all announce the full height; every team answer
// is tampered with probability p (random mutation for that height), answers are
// delayed/duplicated/reordered, unsolicited answers are sent; budgets bound the
// tampering. Silent scenarios: one team peer never answers (15 s pool timeout).
//
// Swap scenarios (swap.go): H and the team all announce the full height; H answers
// genuinely, the team answers genuinely except for the heights h and h+1 of a planned
// window, for which a team peer leaves and comes back instead (so that H delivers both).
// At verifhook.Point("blockchain.PeekTwoBlocks") (poolRoutine's goroutine, after the peek
// of h and h+1, before h is judged, popped and executed) with the block store at h-1 and
// both of H's answers acknowledged, H's connection is closed, the node drops it (the
// requester of h turns to a team peer) and the team pushes a forged block for h into
// the re-assigned requester; then the routine goes on, H comes back. The node has to
// execute the block it judged, not what the pool holds at pop time.
//
// Crash-resume scenarios (crashresume.go): three honest peers at the top; the node is
// killed by the durable-write failpoint while it syncs and the same worker is run
// again on its directory (phase 2).
//
// Oracle (continuous and at the end), see oracle.go.

import (
	"encoding/hex"
	"encoding/json"
	"fmt"
	"io/ioutil"
	"math/rand"
	"os"
	"path/filepath"
	"sort"
	"strconv"
	"strings"
	"sync"
	"sync/atomic"
	"syscall"
	"time"

	"go.uber.org/zap"
	"go.uber.org/zap/zapcore"

	"github.com/dappledger/AnnChain/chain/core"
	crypto "github.com/dappledger/AnnChain/gemmill/go-crypto"
	glog "github.com/dappledger/AnnChain/gemmill/modules/go-log"
	"github.com/dappledger/AnnChain/gemmill/modules/verifhook"

	"verif/lib"
)

type episodeSpec struct {
	T   int64  `json:"t"`
	Mut string `json:"mutation"`
}

type scenarioSpec struct {
	ID       int           `json:"id"`
	Kind     string        `json:"kind"` // surgical | control | final | mix | silent | swap | crash-resume
	Episodes []episodeSpec `json:"episodes"`
	Swaps    []episodeSpec `json:"swap_windows,omitempty"` // swap: t = the height whose requester is swapped between peek and pop, mutation = the forged block pushed
	Seed     int64         `json:"seed"`
	Tier     string        `json:"tier"`
	P        int           `json:"tamper_percent"` // mix
	Budget   int           `json:"tamper_budget"`  // mix, per team peer
	Reopen   bool          `json:"reopen"`
	// crash-resume (see crashresume.go)
	H0     int64  `json:"arm_after_height,omitempty"`   // the failpoint is armed when the state of this height has been saved
	K      int64  `json:"crash_before_write,omitempty"` // SIGKILL before the k-th durable write after arming
	Filter string `json:"counting_only_site,omitempty"` // k counts only writes whose site contains this
	Phase  int    `json:"phase,omitempty"`              // 1 = the run that is killed, 2 = the restart on the same directory
	Note   string `json:"crash_point,omitempty"`        // phase 2: site hit and post-mortem heights (for witnesses)
}

func (s *scenarioSpec) crashResume() bool { return s.Kind == "crash-resume" }
func (s *scenarioSpec) restarted() bool   { return s.Kind == "crash-resume" && s.Phase == 2 }

type episode struct {
	spec     episodeSpec
	mut      *mutation
	x        *mctx
	tamper   map[int64]bool // heights this episode tampers with
	minT     int64
	servedT  bool
	servedT1 bool
	peers    map[*peerCtl]bool
	errBase  int
	servedAt time.Time
	closed   bool
	outcome  string
	applied  bool // accept: T was seen applied
	refused  int
	lastT1   []byte // the last tampered answer for T+1
	conns    []*rawPeer
}

func (e *episode) fullyServed() bool {
	return (e.mut.onT == nil || e.servedT) && (e.mut.onT1 == nil || e.servedT1)
}

type heldReq struct {
	p  *peerCtl
	rp *rawPeer // the connection the request came in on
	h  int64
}

type peerCtl struct {
	d      *director
	name   string
	honest bool
	mute   bool
	priv   crypto.PrivKeyEd25519
	mtx    sync.Mutex
	rp     *rawPeer
	gen    int
	claim  int64      // what it announces (team); H: d.hLimit
	budget int        // mix
	leave  int32      // does not come back
	dmtx   sync.Mutex // swap: one at a time leaves and dials
}

type director struct {
	run   *lib.Run
	c     *srcChain
	spec  *scenarioSpec
	node  *core.Node
	addr  string
	rng   *rand.Rand
	inlog *os.File
	muts  map[string]*mutation
	mlist []*mutation

	mtx       sync.Mutex
	eps       []*episode
	next      int
	active    *episode
	final     bool
	hLimit    int64
	prevName  string
	teamClaim int64
	held      []heldReq
	lastMut   map[int64]string
	H         *peerCtl
	team      []*peerCtl
	kick      chan struct{}

	// what the node's log told us
	valErrs    []string
	executed   []int64
	applyErrs  []string
	switched   int32
	switchedAt int64
	timeouts   int32
	stray      int

	delivered int64
	failed    bool
	checked   int64 // stored heights compared so far
	early     bool
	execBase  int64      // crash-resume, restart: the application's height when the node had been built again
	sw        *swapState // swap (swap.go)
}

// ---- log hook ---------------------------------------------------------------------------

type hookCore struct {
	d *director
	f *os.File
	m sync.Mutex
	// crash-resume: arm the durable-write failpoint when the executer closure has saved the state of armAt
	armAt  int64
	crashK int64
	filter string
	armed  int32
}

func (c *hookCore) Enabled(l zapcore.Level) bool {
	return l >= zapcore.InfoLevel || (c.armAt > 0 && atomic.LoadInt32(&c.armed) == 0)
}
func (c *hookCore) With(f []zapcore.Field) zapcore.Core { return c }
func (c *hookCore) Sync() error                         { return nil }
func (c *hookCore) Check(e zapcore.Entry, ce *zapcore.CheckedEntry) *zapcore.CheckedEntry {
	if c.Enabled(e.Level) {
		return ce.AddCore(e, c)
	}
	return ce
}

func fieldStr(fs []zapcore.Field, key string) string {
	for _, f := range fs {
		if f.Key == key {
			if f.String != "" {
				return f.String
			}
			if f.Interface != nil {
				return fmt.Sprint(f.Interface)
			}
			return strconv.FormatInt(f.Integer, 10)
		}
	}
	return ""
}

func fieldInt(fs []zapcore.Field, key string) int64 {
	for _, f := range fs {
		if f.Key == key {
			return f.Integer
		}
	}
	return -1
}

func (c *hookCore) Write(e zapcore.Entry, fs []zapcore.Field) error {
	switch {
	case e.Message == "error in validation":
		c.d.onValidationError(fieldStr(fs, "error"))
	case e.Message == "Executed block":
		c.d.mtx.Lock()
		c.d.executed = append(c.d.executed, fieldInt(fs, "height"))
		c.d.mtx.Unlock()
	case e.Message == "bc,ApplyBlock err":
		c.d.mtx.Lock()
		c.d.applyErrs = append(c.d.applyErrs, fmt.Sprintf("height %d: %s", fieldInt(fs, "height"), fieldStr(fs, "error")))
		c.d.mtx.Unlock()
	case e.Message == "Time to switch to consensus reactor!":
		atomic.StoreInt64(&c.d.switchedAt, fieldInt(fs, "height"))
		atomic.StoreInt32(&c.d.switched, 1)
	case e.Message == "SendTimeout":
		atomic.AddInt32(&c.d.timeouts, 1)
	case e.Message == "save to db" && c.armAt > 0 && atomic.LoadInt32(&c.armed) == 0 && fieldInt(fs, "height") == c.armAt:
		// the last statement of the fast-sync executer closure (gemmill/angine.go), on poolRoutine's
		// goroutine: block store, application and state of armAt are on disk; the next durable write
		// of this goroutine is the first one of the commit cycle of armAt+1
		atomic.StoreInt32(&c.armed, 1)
		if c.filter != "" {
			verifhook.SetSiteFilter(c.filter)
		}
		verifhook.SetCrashAt(c.crashK)
		verifhook.Arm()
		c.m.Lock()
		fmt.Fprintf(c.f, "# ARMED after height %d: SIGKILL before durable write %d (sites containing %q)\n", c.armAt, c.crashK, c.filter)
		c.m.Unlock()
	}
	if e.Level < zapcore.InfoLevel {
		return nil
	}
	if e.Level >= zapcore.WarnLevel || e.Message == "Executed block" || strings.Contains(e.Message, "switch") || strings.Contains(e.Message, "peer") {
		c.m.Lock()
		fmt.Fprintf(c.f, "%s %s %s", e.Time.Format("15:04:05.000"), e.Level, e.Message)
		for _, f := range fs {
			v := fieldStr(fs, f.Key)
			if len(v) > 300 {
				v = v[:300] + "..."
			}
			fmt.Fprintf(c.f, " %s=%s", f.Key, v)
		}
		fmt.Fprintln(c.f)
		c.m.Unlock()
	}
	return nil
}

func reasonOf(err string) string {
	s := strings.TrimPrefix(err, "Invalid commit -- ")
	if i := strings.Index(s, ":"); i > 0 {
		s = s[:i]
	}
	if len(s) > 60 {
		s = s[:60]
	}
	return s
}

// onValidationError runs on poolRoutine's goroutine, before RedoRequest.
func (d *director) onValidationError(err string) {
	d.mtx.Lock()
	defer d.mtx.Unlock()
	d.valErrs = append(d.valErrs, err)
	d.run.Count("verifier_rejections", 1)
	d.run.Distinct("verifier_rejection_reasons", reasonOf(err))
	e := d.active
	if e == nil || e.closed || !e.fullyServed() {
		d.stray++
		d.run.Count("verifier_rejections_outside_an_episode", 1)
		return
	}
	switch e.mut.expect {
	case "reject":
		d.closeEpisode(e, "rejected-by-verifier")
		d.run.Distinct("rejections_by_family_and_reason", e.mut.fam+"|"+reasonOf(err))
	case "accept":
		if e.applied || d.storeHeight() >= e.spec.T {
			if !e.applied {
				e.applied = true
				d.run.Count("justified_blocks_applied_with_altered_commit", 1)
			}
			d.closeEpisode(e, "applied-then-altered-second-rejected-as-first")
		} else if e.refused++; e.refused >= 3 {
			// T is justified by this commit: a refusal is not a safety problem, but it is not what
			// VerifyCommit is expected to do with it; recorded (three refusals: one may belong to another pair)
			d.closeEpisode(e, "justified-block-refused")
			d.run.Count("justified_but_refused:"+e.mut.name+":"+reasonOf(err), 1)
		}
	default:
		d.stray++
	}
}

// closeEpisode: caller holds d.mtx.
func (d *director) closeEpisode(e *episode, outcome string) {
	if e.closed {
		return
	}
	e.closed, e.outcome = true, outcome
	d.active = nil
	d.run.Count("episodes_"+outcome, 1)
	if outcome == "target-already-applied" {
		d.run.Distinct("episodes_whose_target_was_applied_before_judgement", fmt.Sprintf("%s@%d", e.mut.name, e.spec.T))
	}
	if outcome != "unserved" && outcome != "target-already-applied" {
		pos := "first"
		if e.mut.onT == nil {
			pos = "second"
		} else if e.mut.onT1 != nil {
			pos = "pair"
		}
		d.run.Distinct("cells", e.mut.name+"|"+pos+"|"+d.c.near(e.spec.T))
		d.run.Distinct("mutations_judged", e.mut.name)
		d.run.Nontrivial(fmt.Sprintf("%s|%s|T%d|%s", e.mut.name, pos, e.spec.T, d.c.near(e.spec.T)))
	}
	select {
	case d.kick <- struct{}{}:
	default:
	}
}

// ---- peers ---------------------------------------------------------------------------------

func (p *peerCtl) conn() *rawPeer {
	p.mtx.Lock()
	defer p.mtx.Unlock()
	return p.rp
}

func (p *peerCtl) connected() bool {
	rp := p.conn()
	return rp != nil && !rp.isClosed()
}

func (p *peerCtl) dial() error {
	rp, err := dialRetry(p.d.addr, p.name, p.d.c.id, p.priv)
	if err != nil {
		return err
	}
	p.mtx.Lock()
	p.rp = rp
	p.gen++
	p.mtx.Unlock()
	go p.loop(rp)
	return nil
}

func (p *peerCtl) hangup() {
	if rp := p.conn(); rp != nil {
		rp.close()
	}
}

// reconnect: leave and come back (the node forgets every block this peer delivered).
func (p *peerCtl) reconnect() {
	p.hangup()
	if err := p.dial(); err != nil {
		p.d.note("peer %s cannot reconnect: %v", p.name, err)
		return
	}
	p.d.run.Count("peer_reconnects", 1)
	p.announce()
}

func (p *peerCtl) claimNow() int64 {
	d := p.d
	d.mtx.Lock()
	defer d.mtx.Unlock()
	if p.honest {
		return d.hLimit
	}
	if d.spec.Kind == "mix" || d.spec.Kind == "silent" || d.spec.Kind == "swap" || d.final {
		return d.c.top
	}
	return d.teamClaim
}

func (p *peerCtl) announce() {
	rp := p.conn()
	if rp == nil || rp.isClosed() {
		return
	}
	if c := p.claimNow(); c >= 1 {
		rp.send(bcCh, encBC(&xStatusResponse{c}))
		if p.d.sw != nil {
			p.d.announceSwap(p, rp)
		}
	}
}

func (p *peerCtl) loop(rp *rawPeer) {
	for {
		select {
		case <-rp.closed:
			return
		case m := <-rp.in:
			switch msg := decBC(m.b).(type) {
			case *xStatusRequest:
				p.announce()
			case *xBlockRequest:
				p.d.onRequest(p, rp, msg.Height)
			case *xStatusResponse:
				if p.d.sw != nil {
					p.d.onStatusResponse(rp)
				}
			}
		}
	}
}

func (d *director) note(format string, a ...interface{}) {
	fmt.Fprintf(d.inlog, "# %s\n", fmt.Sprintf(format, a...))
}

func (d *director) logInput(who, desc string, b []byte) {
	if len(b) > 4000 {
		fmt.Fprintf(d.inlog, "%s %s len=%d head=%X\n", who, desc, len(b), b[:4000])
	} else {
		fmt.Fprintf(d.inlog, "%s %s len=%d bytes=%X\n", who, desc, len(b), b)
	}
}

var trace = os.Getenv("C13_TRACE") != ""

type outMsg struct {
	b        []byte
	desc     string
	tampered bool
	delay    time.Duration
}

// onRequest: the node asked peer p for height h.
func (d *director) onRequest(p *peerCtl, rp *rawPeer, h int64) {
	if p.mute {
		d.run.Count("requests_left_unanswered_by_the_silent_peer", 1)
		return
	}
	var out []outMsg
	bounce := false
	d.mtx.Lock()
	if trace {
		d.note("%s request from node to %s for %d (active=%v held=%d)", time.Now().Format("05.000"), p.name, h, d.active != nil, len(d.held))
	}
	if d.spec.Kind == "mix" || d.spec.Kind == "silent" {
		out = d.respondMix(p, rp, h)
	} else if d.spec.Kind == "swap" {
		out, bounce = d.respondSwap(p, rp, h)
	} else {
		out = d.respond(p, rp, h)
	}
	for _, m := range out {
		if m.tampered {
			d.logInput(p.name, m.desc, m.b)
		} else if trace {
			d.note("   %s answers %d genuinely", p.name, h)
		}
	}
	if trace && len(out) == 0 && !bounce {
		d.note("   %s holds the request for %d", p.name, h)
	}
	if trace && bounce {
		d.note("   %s leaves instead of answering %d", p.name, h)
	}
	d.mtx.Unlock()
	if bounce {
		go p.bounce(rp)
		return
	}
	for _, m := range out {
		if m.tampered {
			atomic.AddInt64(&d.delivered, 1)
			d.run.Count("tampered_responses_delivered", 1)
		}
		if m.delay > 0 {
			go func(m outMsg) { time.Sleep(m.delay); rp.send(bcCh, m.b) }(m)
		} else {
			rp.send(bcCh, m.b)
		}
	}
}

func (d *director) genuine(h int64) []byte { return encBC(&xBlockResponse{d.c.block(h)}) }

// respond (surgical): caller holds d.mtx.
func (d *director) respond(p *peerCtl, rp *rawPeer, h int64) (out []outMsg) {
	if h < 1 || h > d.c.top {
		return nil
	}
	if p.honest {
		// between episodes the honest peer is slow as well: a block it re-delivers would be judged
		// against a tampered block whose sender has not left yet
		if h <= d.hLimit && (d.active != nil || d.final) {
			return []outMsg{{b: d.genuine(h)}}
		}
		d.held = append(d.held, heldReq{p, rp, h})
		return nil
	}
	if d.final {
		return []outMsg{{b: d.genuine(h)}}
	}
	for {
		e := d.active
		if e == nil {
			d.held = append(d.held, heldReq{p, rp, h})
			return out
		}
		// tampering that leaves T justified is served to every request for T+1 until T is applied
		// (the pool may time a slow peer out and ask somebody else)
		// likewise a tampered block the verifier has to refuse is served to every request for that
		// height while the episode is open: the genuine pair cannot get through before the judgement
		again := (e.mut.expect == "accept" && !e.applied && h == e.spec.T+1 && e.mut.onT1 != nil) || e.mut.expect == "reject"
		if e.tamper[h] && ((h == e.spec.T && e.mut.onT != nil && (!e.servedT || again)) || (h == e.spec.T+1 && e.mut.onT1 != nil && (!e.servedT1 || again))) {
			var msgs [][]byte
			if h == e.spec.T && e.mut.onT != nil {
				msgs, e.servedT = e.mut.onT(e.x), true
			} else {
				msgs, e.servedT1 = e.mut.onT1(e.x), true
				if len(msgs) > 0 {
					e.lastT1 = msgs[len(msgs)-1]
				}
			}
			for _, b := range msgs {
				out = append(out, outMsg{b: b, tampered: true, desc: fmt.Sprintf("%s (target %d) in answer to the request for height %d", e.mut.name, e.spec.T, h)})
			}
			e.peers[p] = true
			e.conns = append(e.conns, rp)
			d.lastMut[h] = e.mut.name
			if e.fullyServed() {
				e.errBase, e.servedAt = len(d.valErrs), time.Now()
			}
			switch e.mut.expect {
			case "ignore":
				// the pool ignores it: the request stays open; what comes next (the next episode's
				// answer, or the genuine block) answers it
				d.closeEpisode(e, "served-expect-ignored")
				d.held = append(d.held, heldReq{p, rp, h})
			case "drop":
				d.closeEpisode(e, "served-expect-sender-dropped")
			}
			return out
		}
		if h <= e.spec.T+1 || (e.mut.expect == "accept" && h <= e.spec.T+2) {
			return append(out, outMsg{b: d.genuine(h)})
		}
		d.held = append(d.held, heldReq{p, rp, h})
		return out
	}
}

// activateNextLocked makes the next episode the active one (caller holds d.mtx). Returns it.
func (d *director) activateNextLocked() *episode {
	for d.next < len(d.eps) {
		e := d.eps[d.next]
		d.next++
		if d.storeHeight() >= e.spec.T {
			e.closed, e.outcome = true, "target-already-applied"
			d.run.Count("episodes_target-already-applied", 1)
			d.run.Distinct("episodes_whose_target_was_applied_before_activation", fmt.Sprintf("%s@%d after %s", e.mut.name, e.spec.T, d.prevName))
			continue
		}
		d.active = e
		d.prevName = fmt.Sprintf("%s@%d", e.mut.name, e.spec.T)
		if e.minT-1 > d.hLimit {
			d.hLimit = e.minT - 1
		}
		// the team announces no more than the episode needs: a request that is left open makes the pool
		// time its peer out (15 s without a block, or a receive rate under 10 kB/s)
		claim := e.spec.T + 1
		if e.mut.expect == "accept" || e.mut.name == "genuine-then-tampered-duplicate" {
			claim = e.spec.T + 2 // T goes through: somebody must still claim more than the node has
		}
		if claim > d.c.top {
			claim = d.c.top
		}
		if claim > d.teamClaim {
			d.teamClaim = claim
		}
		d.note("episode %s target %d (%s a validator-set change)", e.mut.name, e.spec.T, d.c.near(e.spec.T))
		return e
	}
	d.active = nil
	return nil
}

func (d *director) storeHeight() int64 { return d.node.Angine.VerifBlockStore().Height() }

// flushHeld re-presents held requests (outside d.mtx).
func (d *director) flushHeld() {
	d.mtx.Lock()
	held := d.held
	d.held = nil
	d.mtx.Unlock()
	for _, hr := range held {
		if !hr.rp.isClosed() { // else the node has asked somebody else since
			d.onRequest(hr.p, hr.rp, hr.h)
		}
	}
}

func (d *director) announceAll() {
	if d.H != nil {
		d.H.announce()
	}
	for _, p := range d.team {
		p.announce()
	}
}

// keepPeers: peers the node dropped come back (unless they left for good).
func (d *director) keepPeers() {
	ps := append([]*peerCtl{}, d.team...)
	if d.H != nil {
		ps = append(ps, d.H)
	}
	for _, p := range ps {
		if atomic.LoadInt32(&p.leave) == 0 && !p.connected() {
			if p.mute {
				atomic.StoreInt32(&p.leave, 1) // timed out by the pool: it stays away
				d.run.Count("silent_peers_removed_by_the_node", 1)
				continue
			}
			if d.sw != nil {
				if p.comeBack() {
					d.run.Count("peers_gone_and_back", 1)
					p.announce()
				}
				continue
			}
			if err := p.dial(); err == nil {
				d.run.Count("peers_dropped_by_the_node_and_back", 1)
				p.announce()
			}
		}
	}
}

func (d *director) isFailed() bool {
	d.mtx.Lock()
	defer d.mtx.Unlock()
	return d.failed
}

func (d *director) viol(key, what string, extra map[string]interface{}) {
	d.mtx.Lock()
	if d.failed {
		d.mtx.Unlock()
		return
	}
	d.failed = true
	d.mtx.Unlock()
	if d.spec.restarted() {
		// the restart of a killed node has its own classes (known findings are matched by exact key)
		key = "crash-resume:" + key
	}
	m := map[string]interface{}{"scenario": d.spec, "seed": lib.Seed(), "chain_top": d.c.top, "validator_set_changes_at": d.c.changes,
		"replay": fmt.Sprintf("VERIF_SEED=%d ./check C13 %s  (scenario %d; tampered inputs in the worker's .inputs file, kept with the witness)", lib.Seed(), lib.Tier(), d.spec.ID)}
	for k, v := range extra {
		m[k] = v
	}
	if b, err := ioutil.ReadFile(d.inlog.Name()); err == nil {
		m["inputs_log_tail"] = tail(string(b), 20000)
	}
	if d.spec.Note != "" {
		what = "[" + d.spec.Note + "] " + what
	}
	d.run.ChildViolation(key, fmt.Sprintf("scenario %d (%s): %s", d.spec.ID, d.spec.Kind, what), m)
}

// ---- surgical run ----------------------------------------------------------------------------

func (d *director) runEpisodes() {
	tick := time.NewTicker(25 * time.Millisecond)
	defer tick.Stop()
	blind := 0
	for {
		d.mtx.Lock()
		e := d.activateNextLocked()
		d.mtx.Unlock()
		if e == nil {
			return
		}
		d.run.Count("episodes_started", 1)
		d.announceAll()
		d.flushHeld()
		start := time.Now()
		rearmed := 0
		for {
			d.mtx.Lock()
			closed := e.closed
			served := e.fullyServed()
			d.mtx.Unlock()
			if closed {
				break
			}
			select {
			case <-d.kick:
			case <-tick.C:
			}
			d.keepPeers()
			d.announceAll()
			d.checkStore()
			if d.isFailed() {
				return
			}
			sh := d.storeHeight()
			if atomic.LoadInt32(&d.switched) != 0 && !(e.mut.expect == "accept" && sh >= e.spec.T && e.spec.T+2 > d.c.top) {
				return
			}
			rearm := false
			d.mtx.Lock()
			if !e.closed {
				switch {
				case e.mut.expect == "accept" && !e.applied && sh >= e.spec.T:
					e.applied = true
					d.run.Count("justified_blocks_applied_with_altered_commit", 1)
					if e.spec.T+2 > d.c.top {
						d.closeEpisode(e, "applied-with-altered-final-commit")
					}
				case e.mut.expect == "reject" && sh >= e.spec.T:
					// the genuine pair got through before the tampered answer was judged
					d.closeEpisode(e, "target-already-applied")
					if c := e.spec.T + 2; c > d.teamClaim && c <= d.c.top {
						d.teamClaim = c // somebody must still claim more than the node has
					}
				case !served && time.Since(start) > 8*time.Second:
					d.closeEpisode(e, "unserved")
				case !served && time.Since(start) > 1500*time.Millisecond && rearmed < 1:
					rearm = true
				case served && (e.mut.expect == "reject" || (e.mut.expect == "accept" && !e.applied)) && time.Since(e.servedAt) > time.Second && rearmed < 3:
					// nothing came of it: the answer may have gone to a request the pool had given to
					// somebody else meanwhile (a blamed peer stays connected). Once more, on fresh requests.
					rearm = true
				case served && time.Since(e.servedAt) > 8*time.Second:
					d.closeEpisode(e, "served-without-observable-outcome")
					d.run.Distinct("mutations_without_observable_outcome", e.mut.name)
				}
				if rearm {
					rearmed++
					d.run.Count("episodes_rearmed", 1)
					e.servedT, e.servedT1 = false, false
					e.peers = map[*peerCtl]bool{}
				}
			}
			d.mtx.Unlock()
			if rearm {
				d.everyoneBack()
				d.announceAll()
				d.flushHeld()
			}
		}
		d.mtx.Lock()
		var ps []*peerCtl
		for p := range e.peers {
			ps = append(ps, p)
		}
		outcome := e.outcome
		d.mtx.Unlock()
		_ = ps
		if outcome == "served-expect-sender-dropped" {
			d.mtx.Lock()
			conns := e.conns
			d.mtx.Unlock()
			for _, rp := range conns {
				if rp.waitClosed(3 * time.Second) {
					d.run.Count("senders_dropped_in_receive", 1)
				} else {
					d.run.Count("senders_not_dropped_although_expected", 1)
					d.run.Distinct("mutations_not_dropped_although_expected", e.mut.name)
				}
			}
		}
		if outcome == "served-without-observable-outcome" || outcome == "unserved" {
			if blind++; blind >= 3 {
				// three episodes without any reaction of the node: it is not syncing any more;
				// the final phase decides what that is
				d.run.Count("episode_lists_abandoned", 1)
				return
			}
		}
		// everybody leaves and comes back, one at a time (somebody claiming the full height always
		// stays): the node forgets every block and every open request of the episode, whoever was
		// blamed, and asks again
		d.everyoneBack()
		d.checkStore()
		if d.isFailed() {
			return
		}
	}
}

func (d *director) everyoneBack() {
	d.mtx.Lock()
	d.held = nil
	d.mtx.Unlock()
	for _, p := range d.team {
		p.reconnect()
	}
	d.H.reconnect()
}

// ---- mix ----------------------------------------------------------------------------------------

// respondMix: caller holds d.mtx.
func (d *director) respondMix(p *peerCtl, rp *rawPeer, h int64) (out []outMsg) {
	if h < 1 || h > d.c.top {
		return nil
	}
	g := outMsg{b: d.genuine(h)}
	if p.honest || d.final || p.budget <= 0 || d.rng.Intn(100) >= d.spec.P {
		if !p.honest && d.rng.Intn(6) == 0 {
			g.delay = time.Duration(d.rng.Intn(40)) * time.Millisecond // answers overtake each other
		}
		out = append(out, g)
		if !p.honest && d.rng.Intn(8) == 0 {
			out = append(out, outMsg{b: d.genuine(h)}) // duplicate
		}
		if !p.honest && d.rng.Intn(10) == 0 {
			u := 1 + d.rng.Int63n(d.c.top)
			out = append(out, outMsg{b: d.genuine(u)}) // unsolicited
		}
		return out
	}
	// a random mutation that can be served for this height: as target (first) or as the block after the target (second)
	for try := 0; try < 20; try++ {
		m := d.mlist[d.rng.Intn(len(d.mlist))]
		if m.expect == "accept" {
			continue
		}
		var T int64
		var f func(x *mctx) [][]byte
		if m.onT != nil && (m.onT1 == nil || d.rng.Intn(2) == 0) {
			T, f = h, m.onT
		} else if m.onT1 != nil {
			T, f = h-1, m.onT1
		}
		if f == nil || !m.applicable(d.c, T) {
			continue
		}
		x := &mctx{c: d.c, rng: d.rng, T: T}
		for _, b := range f(x) {
			out = append(out, outMsg{b: b, tampered: true, desc: fmt.Sprintf("%s (target %d) in answer to the request for height %d", m.name, T, h)})
		}
		p.budget--
		d.lastMut[h] = m.name
		d.run.Distinct("mix_mutations_served", m.name)
		if m.expect == "ignore" {
			out = append(out, g)
		}
		// the sender leaves and comes back a little later (its block would stay in the requester otherwise)
		go func(p *peerCtl, gen int) {
			time.Sleep(time.Duration(250+rand.Intn(200)) * time.Millisecond)
			p.mtx.Lock()
			same := p.gen == gen
			p.mtx.Unlock()
			if same && atomic.LoadInt32(&p.leave) == 0 {
				p.reconnect()
			}
		}(p, p.gen)
		return out
	}
	return append(out, g)
}

func (d *director) budgetsLeft() int {
	d.mtx.Lock()
	defer d.mtx.Unlock()
	n := 0
	for _, p := range d.team {
		if !p.mute {
			n += p.budget
		}
	}
	return n
}

// ---- the worker -----------------------------------------------------------------------------------

func waitUntil(d time.Duration, cond func() bool) bool {
	deadline := time.Now().Add(d)
	for {
		if cond() {
			return true
		}
		if time.Now().After(deadline) {
			return cond()
		}
		time.Sleep(5 * time.Millisecond)
	}
}

// syncWorker: sync <dump> <dir> <port> <scenario.json> <out.json>
func syncWorker(args []string) {
	var lim syscall.Rlimit
	lim.Cur, lim.Max = 8<<30, 8<<30
	syscall.Setrlimit(syscall.RLIMIT_AS, &lim)
	dumpFile, dir, out := args[0], args[1], args[4]
	port, _ := strconv.Atoi(args[2])
	run := lib.NewChildRun(prop)
	bail := func(f string, a ...interface{}) {
		run.Inconclusive(fmt.Sprintf(f, a...))
		run.MarkComplete()
		run.ExportTo(out)
		os.Exit(0)
	}
	var spec scenarioSpec
	if b, err := ioutil.ReadFile(args[3]); err != nil || json.Unmarshal(b, &spec) != nil {
		bail("scenario file unreadable")
	}
	seedOverride = spec.Seed
	b, err := ioutil.ReadFile(dumpFile)
	if err != nil {
		bail("dump: %v", err)
	}
	dump := &chainDump{}
	if err := json.Unmarshal(b, dump); err != nil {
		bail("dump: %v", err)
	}
	c, err := newSrcChain(dump)
	if err != nil {
		bail("source chain: %v", err)
	}
	inlog, err := os.Create(out + ".inputs")
	if err != nil {
		bail("input log: %v", err)
	}
	if !fileExists(filepath.Join(dir, "config.toml")) && !fileExists(filepath.Join(dir, "genesis.json")) {
		if err := initRuntime(dir, c.id, port, nodeKey(fmt.Sprintf("s-%d-%d", spec.Seed, spec.ID)), srcGenesisFile(dump.Dir)); err != nil {
			bail("init: %v", err)
		}
	}
	// crash-resume, restart: building the node again on the directory of the killed one is what is
	// judged; a panic in here kills this process (the parent judges a dead worker)
	n, conf, err := newNode(dir, port, true)
	if err != nil && spec.restarted() {
		run.Eval()
		run.ChildViolation("crash-resume:restart-fails:NewNode-returns-an-error", fmt.Sprintf("scenario %d (crash-resume): chain/core.NewNode on the directory of the killed node returns %v", spec.ID, err), map[string]interface{}{"scenario": &spec, "seed": spec.Seed})
		run.MarkComplete()
		run.ExportTo(out)
		prefixCounters(out, &spec)
		os.Exit(0)
	}
	if err != nil {
		bail("NewNode: %v", err)
	}
	if ps := conf.GetInt("block_part_size"); ps != c.partSize {
		bail("block_part_size differs: %d vs %d", ps, c.partSize)
	}
	d := &director{run: run, c: c, spec: &spec, node: n, addr: fmt.Sprintf("127.0.0.1:%d", port), rng: lib.Rand("c13-scenario", int64(spec.ID)), inlog: inlog,
		muts: map[string]*mutation{}, lastMut: map[int64]string{}, kick: make(chan struct{}, 1)}
	d.mlist = catalogue()
	for _, m := range d.mlist {
		d.muts[m.name] = m
	}
	lflags := os.O_CREATE | os.O_WRONLY | os.O_TRUNC
	if spec.restarted() {
		lflags = os.O_CREATE | os.O_WRONLY | os.O_APPEND // one trace over both lives of the node
	}
	lf, _ := os.OpenFile(filepath.Join(dir, "c13-node-events.log"), lflags, 0644)
	hc := &hookCore{d: d, f: lf}
	if spec.crashResume() && spec.Phase == 1 && spec.K > 0 {
		hc.armAt, hc.crashK, hc.filter = spec.H0, spec.K, spec.Filter
	}
	if spec.restarted() {
		info := n.Application.Info()
		d.execBase = info.LastBlockHeight
		d.checked = 0
		fmt.Fprintf(lf, "# RESTART state %d store %d application %d\n", n.Angine.VerifState().LastBlockHeight, n.Angine.VerifBlockStore().Height(), info.LastBlockHeight)
		run.Distinct("heights_after_the_node_was_built_again", fmt.Sprintf("store-state=%d application-state=%d", n.Angine.VerifBlockStore().Height()-n.Angine.VerifState().LastBlockHeight, info.LastBlockHeight-n.Angine.VerifState().LastBlockHeight))
	}
	glog.SetLog(zap.New(hc))
	if err := n.Start(); err != nil {
		if spec.restarted() {
			run.Eval()
			run.ChildViolation("crash-resume:restart-fails:Start-returns-an-error", fmt.Sprintf("scenario %d (crash-resume): Node.Start on the directory of the killed node returns %v", spec.ID, err), map[string]interface{}{"scenario": &spec, "seed": spec.Seed})
			run.MarkComplete()
			run.ExportTo(out)
			prefixCounters(out, &spec)
			os.Exit(0)
		}
		bail("Start: %v", err)
	}
	fmt.Fprintf(inlog, "BEGIN scenario %d %s\n", spec.ID, spec.Kind)
	run.Eval()
	run.Count("scenarios_"+spec.Kind, 1)

	for _, es := range spec.Episodes {
		m := d.muts[es.Mut]
		if m == nil {
			bail("unknown mutation %s", es.Mut)
		}
		e := &episode{spec: es, mut: m, x: &mctx{c: c, rng: d.rng, T: es.T}, tamper: map[int64]bool{}, peers: map[*peerCtl]bool{}}
		e.minT = es.T + 1
		if m.onT != nil {
			e.tamper[es.T] = true
			e.minT = es.T
		}
		if m.onT1 != nil {
			e.tamper[es.T+1] = true
		}
		d.eps = append(d.eps, e)
	}
	// by the lowest tampered height; among those the lower target first (tampering with the commit for
	// T inside block T+1 comes before tampering with block T+1 itself, which lets T through)
	// (tampering that lets T through comes last among the episodes of a target)
	key := func(e *episode) [3]int64 {
		switch {
		case e.mut.name == "genuine-then-tampered-duplicate":
			return [3]int64{e.spec.T + 1, e.spec.T, 1}
		case e.mut.expect == "accept":
			return [3]int64{e.minT, e.spec.T, 2}
		}
		return [3]int64{e.minT, e.spec.T, 0}
	}
	sort.SliceStable(d.eps, func(i, j int) bool {
		a, b := key(d.eps[i]), key(d.eps[j])
		for k := 0; k < 3; k++ {
			if a[k] != b[k] {
				return a[k] < b[k]
			}
		}
		return false
	})

	mkPeer := func(name string, honest bool) *peerCtl {
		return &peerCtl{d: d, name: name, honest: honest, priv: nodeKey(fmt.Sprintf("peer-%s-%d-%d", name, spec.Seed, spec.ID)), budget: spec.Budget}
	}
	d.H = mkPeer("honest", true)
	nTeam := 3
	if spec.Kind == "control" {
		nTeam = 0
	}
	if spec.crashResume() {
		// three honest peers at the top of the chain, before the kill and after the restart
		nTeam = 2
		d.final, d.hLimit = true, c.top
	}
	for i := 0; i < nTeam; i++ {
		d.team = append(d.team, mkPeer(fmt.Sprintf("team%d", i), false))
	}
	if spec.Kind == "silent" {
		d.team[0].mute = true
	}
	switch spec.Kind {
	case "mix", "silent":
		d.hLimit = c.top
	case "swap":
		d.hLimit = c.top
		for _, es := range spec.Swaps {
			if m := d.muts[es.Mut]; m == nil || m.onT == nil {
				bail("unknown swap mutation %s", es.Mut)
			}
		}
		d.initSwap()
		verifhook.SetPointFunc(d.onPoint)
	}
	// the team first: somebody must always claim more than the node has
	for _, p := range d.team {
		if err := p.dial(); err != nil {
			bail("peer %s cannot connect: %v", p.name, err)
		}
	}
	if err := d.H.dial(); err != nil {
		bail("honest peer cannot connect: %v", err)
	}

	switch spec.Kind {
	case "surgical", "final":
		d.runEpisodes()
	case "swap":
		d.runSwap()
	case "mix", "silent":
		d.announceAll()
		// until the budgets are spent (mix) / the silent peer was timed out, or the node is through
		for i := 0; i < 400 && !d.isFailed() && atomic.LoadInt32(&d.switched) == 0; i++ {
			d.keepPeers()
			d.announceAll()
			d.checkStore()
			if d.storeHeight() >= c.top-1 {
				break
			}
			if spec.Kind == "mix" && d.budgetsLeft() == 0 {
				break
			}
			time.Sleep(100 * time.Millisecond)
		}
	}
	d.mtx.Lock()
	left := 0
	for _, e := range d.eps {
		if !e.closed {
			left++
		}
	}
	d.mtx.Unlock()
	run.Count("episodes_not_run", int64(left))
	if atomic.LoadInt32(&d.switched) != 0 && d.storeHeight() < c.top-1 {
		// the pool believed it had caught up (all peers claiming more were out of the pool at a tick):
		// the scenario's remaining episodes cannot be run; nothing is judged about completion
		d.early = true
		run.Count("left_fast_sync_early", 1)
	}
	if !d.isFailed() && !d.early {
		d.finish()
	}
	d.checkStore()
	d.report()
	fmt.Fprintf(inlog, "END scenario %d\n", spec.ID)
	inlog.Close()
	run.MarkComplete()
	if err := run.ExportTo(out); err != nil {
		fmt.Println("export failed:", err)
		os.Exit(1)
	}
	prefixCounters(out, &spec)
	if !d.isFailed() && !trace {
		os.Remove(out + ".inputs")
	}
	os.Exit(0)
}

// finish: the malicious peers leave one by one, the honest peer announces and serves everything.
func (d *director) finish() {
	c := d.c
	d.mtx.Lock()
	d.final = true
	d.hLimit = c.top
	d.mtx.Unlock()
	d.announceAll()
	d.flushHeld()
	// give the honest peer's announcement a moment to be in the pool before the others go
	time.Sleep(60 * time.Millisecond)
	allStay := d.spec.crashResume() // every peer is honest and stays
	for _, p := range d.team {
		if allStay {
			break
		}
		atomic.StoreInt32(&p.leave, 1)
		p.hangup()
		d.H.announce()
		time.Sleep(10 * time.Millisecond)
	}
	start := d.storeHeight()
	rounds := 0
	done := func() bool { return d.storeHeight() >= c.top-1 || atomic.LoadInt32(&d.switched) != 0 }
	for ; rounds < 160 && !done(); rounds++ {
		if allStay {
			d.keepPeers()
			d.announceAll()
		} else if !d.H.connected() {
			if err := d.H.dial(); err == nil {
				d.run.Count("honest_peer_reconnects_in_final_phase", 1)
			}
		}
		d.H.announce()
		waitUntil(250*time.Millisecond, done)
		d.checkStore()
		if d.isFailed() {
			return
		}
	}
	d.run.Count("final_phase_status_rounds", int64(rounds))
	d.run.Distinct("final_phase_status_rounds_seen", strconv.Itoa(rounds))
	if d.storeHeight() < c.top-1 {
		if atomic.LoadInt32(&d.switched) != 0 {
			d.early = true
			d.run.Count("left_fast_sync_early", 1)
			return
		}
		d.mtx.Lock()
		last := d.lastMutName()
		ve := append([]string{}, d.valErrs...)
		d.mtx.Unlock()
		if len(ve) > 6 {
			ve = ve[len(ve)-6:]
		}
		if d.spec.restarted() {
			d.viol("wedged", fmt.Sprintf("after the restart of the killed node three honest peers at height %d that answered every request and announced their height %d times did not get it past height %d (it was at %d when it had been built again)", c.top, rounds, d.storeHeight(), start),
				map[string]interface{}{"last_validation_errors": ve, "goroutines": goroutineDump("blockchain.")})
			return
		}
		d.viol("blocksync-wedged:"+last, fmt.Sprintf("after the malicious peers left, an honest peer that answered every request and announced its height %d times did not get the node past height %d (it was at %d when they left; chain top %d)", rounds, d.storeHeight(), start, c.top),
			map[string]interface{}{"last_validation_errors": ve, "goroutines": goroutineDump("blockchain.")})
		return
	}
	d.run.Count("syncs_completed", 1)
	d.run.Count("heights_synced", d.storeHeight())
	// the node notices that it has caught up at its next one-second tick
	if !waitUntil(8*time.Second, func() bool { return atomic.LoadInt32(&d.switched) != 0 }) {
		d.run.Count("switch_to_consensus_not_seen", 1)
	} else {
		d.run.Count("switched_to_consensus", 1)
		time.Sleep(300 * time.Millisecond) // SwitchToConsensus runs right after the event; a panic there kills the process
	}
	d.compareFinal()
}

func (d *director) lastMutName() string {
	best, name := int64(-1), "none"
	for h, m := range d.lastMut {
		if h > best {
			best, name = h, m
		}
	}
	return name
}

func hexs(b []byte) string { return hex.EncodeToString(b) }
