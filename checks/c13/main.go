// C13 — fast sync applies only blocks justified by +2/3 commits and ends in the
// same state as a node that followed consensus live.
//
// Technique: runtime monitoring of the real code. The syncing node is the real
// node (chain/core.NewNode: Angine with the verifier/executer closures of
// assembleStateMachine, EVM application, adminOp plugin) with fast_sync = true in
// a worker process; its peers are harness peers over real TCP connections
// (own secret-connection and node-info handshake, raw block-sync messages): an
// honest one and a team of malicious ones that serve tampered blocks of a real
// source chain with validator-set changes. See scenario.go for the oracle.
// Crash-resume scenarios (crashresume.go): the syncing node is killed by the
// durable-write failpoint while it fast-syncs from honest peers and is started
// again on the same directory.
package main

import (
	"crypto/sha256"
	"encoding/hex"
	"fmt"
	"os"
	"strconv"

	"verif/evmdrive"
)

const prop = "C13"

func libHash(b []byte) string { h := sha256.Sum256(b); return hex.EncodeToString(h[:8]) }

func main() {
	if len(os.Args) > 1 {
		evmdrive.Quiet()
		switch os.Args[1] {
		case "init": // init <dir> <port> <chainid> <keylabel> [genesis-from]
			p, _ := strconv.Atoi(os.Args[3])
			from := ""
			if len(os.Args) > 6 {
				from = os.Args[6]
			}
			var err error
			if os.Args[5] == "v0" {
				err = initRuntime(os.Args[2], os.Args[4], p, v0Key(), from)
			} else {
				err = initRuntime(os.Args[2], os.Args[4], p, nodeKey(os.Args[5]), from)
			}
			if err != nil {
				fmt.Println("init:", err)
				os.Exit(5)
			}
			return
		case "source":
			sourceChild(os.Args[2:])
			return
		case "sync":
			syncWorker(os.Args[2:])
			return
		case "postmortem":
			postmortemChild(os.Args[2:])
			return
		case "dbgchain":
			dbgChain(os.Args[2:])
			return
		case "reopen":
			reopenChild(os.Args[2:])
			return
		}
	}
	parent()
}
