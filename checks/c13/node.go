package main

// Real-node plumbing: runtime directories, configuration, deterministic keys.

import (
	"fmt"
	"io/ioutil"
	"os"
	"path/filepath"

	"github.com/spf13/viper"

	"github.com/dappledger/AnnChain/chain/core"
	"github.com/dappledger/AnnChain/gemmill"
	"github.com/dappledger/AnnChain/gemmill/config"
	crypto "github.com/dappledger/AnnChain/gemmill/go-crypto"
)

func tune(c *viper.Viper, port int, fastSync bool) {
	c.Set("app_name", "evm")
	c.Set("p2p_laddr", fmt.Sprintf("tcp://127.0.0.1:%d", port))
	c.Set("rpc_laddr", "")
	c.Set("seeds", "")
	c.Set("skip_upnp", true)
	c.Set("pex_reactor", false)
	c.Set("auth_by_ca", false)
	c.Set("fast_sync", fastSync)
	c.Set("timeout_propose", 400)
	c.Set("timeout_propose_delta", 50)
	c.Set("timeout_prevote", 100)
	c.Set("timeout_prevote_delta", 50)
	c.Set("timeout_precommit", 100)
	c.Set("timeout_precommit_delta", 50)
	c.Set("timeout_commit", 120)
	c.Set("environment", "production")
}

// nodeKey is the deterministic ed25519 key of a node of this check.
func nodeKey(label string) crypto.PrivKeyEd25519 {
	return crypto.GenPrivKeyEd25519FromSecret([]byte("c13-node-key-" + label))
}

// initRuntime creates a runtime directory as `genesis init` does, with the given node key.
// genesisFrom, when not empty, replaces the generated genesis.json (a node joining an existing chain).
func initRuntime(dir, chainID string, port int, key crypto.PrivKeyEd25519, genesisFrom string) error {
	c := core.DefaultConf()
	tune(c, port, false)
	c.Set("log_path", filepath.Join(dir, "node.log"))
	c.Set("gen_privkey", crypto.PrivKey(key))
	gemmill.Initialize(&gemmill.Tunes{Runtime: dir, Conf: c}, chainID)
	if genesisFrom != "" {
		b, err := ioutil.ReadFile(genesisFrom)
		if err != nil {
			return err
		}
		return ioutil.WriteFile(filepath.Join(dir, "genesis.json"), b, 0644)
	}
	return nil
}

func nodeConf(dir string, port int, fastSync bool) (*viper.Viper, error) {
	c, err := config.ReadConfig(dir)
	if err != nil {
		return nil, err
	}
	tune(c, port, fastSync)
	c.Set("log_path", filepath.Join(dir, "node.log"))
	return c, nil
}

// newNode builds the real node (chain/core.NewNode: Angine + EVM application + plugins) on dir.
func newNode(dir string, port int, fastSync bool) (*core.Node, *viper.Viper, error) {
	c, err := nodeConf(dir, port, fastSync)
	if err != nil {
		return nil, nil, err
	}
	n, err := core.NewNode(c, dir, "evm")
	return n, c, err
}

func fileExists(p string) bool {
	_, err := os.Stat(p)
	return err == nil
}
