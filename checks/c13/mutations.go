package main

// Tampering catalogue. An episode has a target height T: the block that must
// not be applied unless it is the source chain's block justified by +2/3 of the
// set in force at T. A mutation tampers with the block served for T ("first"
// when it is judged), with the block served for T+1 (the "second", whose
// LastCommit has to justify T), or with both (forged pair).
//
// Keys: the harness signs with the keys of the harness validators V1.. (together
// always < 1/3 of the power), with keys of nobody, and with V0's key only for
// votes V0 can have produced honestly for that very block (its prevote, its
// precommit as recorded in the chain). It never signs another block with V0's key:
// V0 holds more than 2/3, that would be outside the fault model.

import (
	"bytes"
	"fmt"
	"math"
	"math/rand"
	"time"

	crypto "github.com/dappledger/AnnChain/gemmill/go-crypto"
	"github.com/dappledger/AnnChain/gemmill/types"
)

type mctx struct {
	c   *srcChain
	rng *rand.Rand
	T   int64
}

type mutation struct {
	name string
	fam  string // content | lastcommit | pair | structural | sufficient
	// responses to the request for T / for T+1; nil = the genuine block
	onT  func(x *mctx) [][]byte
	onT1 func(x *mctx) [][]byte
	// reject: the verifier must refuse; drop: the reactor drops the sender in Receive;
	// ignore: the pool ignores the response (the request stays open, the sender then answers
	// genuinely); accept: T is justified all the same (the tampering leaves +2/3 for T intact)
	expect string
	ok     func(c *srcChain, T int64) bool // applicable at T
}

func resp(b *types.Block) [][]byte { return [][]byte{encBC(&xBlockResponse{b})} }

func contentMut(name string, f func(x *mctx, b *types.Block)) *mutation {
	return &mutation{name: name, fam: "content", expect: "reject", onT: func(x *mctx) [][]byte {
		b := x.c.block(x.T)
		f(x, b)
		return resp(b)
	}}
}

// lcMut tampers with the LastCommit (the commit for T) of block T+1; the header's
// LastCommitHash is recomputed or kept as the flag says.
func lcMut(name, expect string, rehash bool, f func(x *mctx, b *types.Block, lc *types.Commit) *types.Commit) *mutation {
	return &mutation{name: name, fam: "lastcommit", expect: expect, onT1: func(x *mctx) [][]byte {
		b := x.c.block(x.T + 1)
		if nlc := f(x, b, b.LastCommit); nlc != nil {
			b.LastCommit = nlc
		}
		if rehash {
			b.Header.LastCommitHash = nil
			b.FillHeader()
		}
		return resp(b)
	}}
}

func (x *mctx) genuineCommit() *types.Commit { return x.c.block(x.T + 1).LastCommit }

// v0Slot is V0's index in the set in force at h (-1 if absent).
func (c *srcChain) v0Slot(h int64) int {
	for i, m := range c.mem[clampH(h, c.top)] {
		if bytes.Equal(m.Addr, c.v0) {
			return i
		}
	}
	return -1
}

// otherSetHeight: a height whose set differs from the one in force at T (nearest), or 0.
func (c *srcChain) otherSetHeight(T int64) int64 {
	best := int64(0)
	for h := int64(1); h <= c.top; h++ {
		if !sameMembers(c.mem[h], c.mem[T]) {
			if best == 0 || absI(h-T) < absI(best-T) {
				best = h
			}
		}
	}
	return best
}

// otherShapeHeight: the nearest height whose set has other members or another order than the one
// in force at T (a commit shaped for it has other slots), or 0.
func (c *srcChain) otherShapeHeight(T int64) int64 {
	same := func(a, b []member) bool {
		if len(a) != len(b) {
			return false
		}
		for i := range a {
			if !bytes.Equal(a[i].Addr, b[i].Addr) {
				return false
			}
		}
		return true
	}
	best := int64(0)
	for h := int64(1); h <= c.top; h++ {
		if !same(c.mem[h], c.mem[T]) {
			if best == 0 || absI(h-T) < absI(best-T) {
				best = h
			}
		}
	}
	return best
}

func absI(a int64) int64 {
	if a < 0 {
		return -a
	}
	return a
}

// forgedBlock builds another block for height T (other transactions, consistent hashes, the
// genuine LastCommit so that T-1 still goes through).
func (x *mctx) forgedBlock() (*types.Block, types.BlockID) {
	c := x.c
	o := c.block(x.T)
	txs := []types.Tx{types.Tx(fmt.Sprintf("forged-tx-%d-%d", x.T, x.rng.Intn(1<<30)))}
	b, ps := types.MakeBlock(x.T, c.id, txs, nil, o.LastCommit, o.ProposerAddress, o.LastBlockID, o.ValidatorsHash, o.AppHash, o.ReceiptsHash, c.partSize)
	b.Header.Time = o.Header.Time.Add(time.Millisecond)
	ps = b.MakePartSet(c.partSize)
	return b, types.BlockID{Hash: b.Hash(), PartsHeader: ps.Header()}
}

func (x *mctx) forgedNext(lc *types.Commit, fid types.BlockID) *types.Block {
	c := x.c
	o := c.block(x.T + 1)
	b, _ := types.MakeBlock(x.T+1, c.id, []types.Tx{types.Tx("forged-next")}, nil, lc, o.ProposerAddress, fid, o.ValidatorsHash, o.AppHash, o.ReceiptsHash, c.partSize)
	return b
}

func pairMut(name string, commitFor func(x *mctx, fid types.BlockID) *types.Commit) *mutation {
	var fb *types.Block
	var fid types.BlockID
	var forT int64 = -1
	prep := func(x *mctx) {
		if forT != x.T || fb == nil {
			fb, fid = x.forgedBlock()
			forT = x.T
		}
	}
	return &mutation{name: name, fam: "pair", expect: "reject",
		onT:  func(x *mctx) [][]byte { prep(x); return resp(fb) },
		onT1: func(x *mctx) [][]byte { prep(x); return resp(x.forgedNext(commitFor(x, fid), fid)) },
	}
}

func (c *srcChain) harnessOnly(m member) *crypto.PrivKeyEd25519 {
	if bytes.Equal(m.Addr, c.v0) {
		return nil
	}
	return c.own(m)
}

func hasHarnessMember(c *srcChain, T int64) bool {
	for _, m := range c.mem[T] {
		if !bytes.Equal(m.Addr, c.v0) && c.own(m) != nil {
			return true
		}
	}
	return false
}

func hasPoweredHarnessMember(c *srcChain, T int64) bool {
	for _, m := range c.mem[T] {
		if !bytes.Equal(m.Addr, c.v0) && c.own(m) != nil && m.Power > 0 {
			return true
		}
	}
	return false
}

func catalogue() []*mutation {
	otherID := types.BlockID{Hash: []byte("another-block-hash-0"), PartsHeader: types.PartSetHeader{Total: 1, Hash: []byte("another-parts-hash-0")}}
	ms := []*mutation{
		// ---- the block served for T is not the source block ---------------------------------
		contentMut("tx-added-header-kept", func(x *mctx, b *types.Block) {
			b.Data.Txs = append(types.Txs{types.Tx("smuggled-tx")}, b.Data.Txs...)
		}),
		contentMut("tx-removed-or-replaced-header-kept", func(x *mctx, b *types.Block) {
			if len(b.Data.Txs) > 0 {
				b.Data.Txs = b.Data.Txs[:len(b.Data.Txs)-1]
			} else {
				b.Data.Txs = types.Txs{types.Tx("smuggled-tx")}
			}
		}),
		contentMut("tx-bytes-altered-header-kept", func(x *mctx, b *types.Block) {
			if len(b.Data.Txs) > 0 {
				t := append([]byte{}, b.Data.Txs[0]...)
				t[len(t)/2] ^= 0x01
				b.Data.Txs[0] = t
			} else {
				b.Data.ExTxs = types.Txs{types.Tx("smuggled-extx")}
			}
		}),
		contentMut("txs-reordered-header-kept", func(x *mctx, b *types.Block) {
			if n := len(b.Data.Txs); n >= 2 {
				b.Data.Txs[0], b.Data.Txs[n-1] = b.Data.Txs[n-1], b.Data.Txs[0]
			} else {
				b.Data.Txs = append(b.Data.Txs, types.Tx("smuggled-tx"))
			}
		}),
		contentMut("txs-replaced-fresh-datahash", func(x *mctx, b *types.Block) {
			b.Data.Txs = types.Txs{types.Tx("smuggled-tx")}
			b.Header.DataHash = nil
			b.Header.NumTxs = 1
			b.FillHeader()
		}),
		contentMut("extxs-smuggled", func(x *mctx, b *types.Block) { b.Data.ExTxs = types.Txs{types.Tx("smuggled-extx")} }),
		contentMut("header-chainid", func(x *mctx, b *types.Block) { b.Header.ChainID = "another-chain" }),
		contentMut("header-time", func(x *mctx, b *types.Block) { b.Header.Time = b.Header.Time.Add(time.Second) }),
		contentMut("header-numtxs", func(x *mctx, b *types.Block) {
			b.Header.NumTxs = []int64{b.Header.NumTxs + 1, 0, math.MaxInt64, -1}[x.rng.Intn(4)]
			if b.Header.NumTxs == int64(len(b.Data.Txs)) {
				b.Header.NumTxs++
			}
		}),
		contentMut("header-lastblockid-hash", func(x *mctx, b *types.Block) { b.Header.LastBlockID.Hash = []byte("another-block-hash-0") }),
		contentMut("header-lastblockid-parts", func(x *mctx, b *types.Block) { b.Header.LastBlockID.PartsHeader.Total++ }),
		contentMut("header-lastcommithash", func(x *mctx, b *types.Block) { b.Header.LastCommitHash = []byte("another-commit-hash-") }),
		contentMut("header-datahash", func(x *mctx, b *types.Block) { b.Header.DataHash = []byte("another-data-hash-00") }),
		contentMut("header-validatorshash", func(x *mctx, b *types.Block) {
			if o := x.c.otherSetHeight(x.T); o != 0 {
				b.Header.ValidatorsHash = x.c.sets[o].Hash() // the hash of a set that was or will be in force
			} else {
				b.Header.ValidatorsHash = []byte("another-valset-hash-")
			}
		}),
		contentMut("header-apphash", func(x *mctx, b *types.Block) { b.Header.AppHash = []byte("another-app-hash-000") }),
		contentMut("header-receiptshash", func(x *mctx, b *types.Block) { b.Header.ReceiptsHash = []byte("another-receipts-hash") }),
		contentMut("header-proposer", func(x *mctx, b *types.Block) {
			b.Header.ProposerAddress = x.c.foreign[0].PubKey().Address()
		}),
		contentMut("header-extra-not-in-block-hash", func(x *mctx, b *types.Block) { b.Header.Extra = []byte("extra") }),
		contentMut("forged-block-consistent-hashes", func(x *mctx, b *types.Block) {
			fb, _ := x.forgedBlock()
			*b = *fb
		}),
		contentMut("block-of-next-height-relabelled", func(x *mctx, b *types.Block) {
			nb := x.c.block(x.T + 1)
			nb.Header.Height = x.T
			*b = *nb
		}),
		contentMut("block-of-previous-height-relabelled", func(x *mctx, b *types.Block) {
			if x.T >= 2 {
				nb := x.c.block(x.T - 1)
				nb.Header.Height = x.T
				*b = *nb
			} else {
				b.Header.Time = b.Header.Time.Add(time.Second)
			}
		}),
		contentMut("own-lastcommit-altered-still-sufficient-for-previous", func(x *mctx, b *types.Block) {
			// the commit for T-1 inside block T gains the small validators' votes: T-1 is still
			// justified, block T itself is no longer the block that was committed
			changed := false
			if x.T >= 2 {
				for i, m := range x.c.mem[x.T-1] {
					if k := x.c.harnessOnly(m); k != nil && i < len(b.LastCommit.Precommits) {
						b.LastCommit.Precommits[i] = x.c.vote(*k, m.Addr, i, x.T-1, b.LastCommit.Round(), types.VoteTypePrecommit, x.c.ids[x.T-1])
						changed = true
					}
				}
			}
			if !changed {
				b.Header.Extra = []byte("x")
			}
		}),

		// ---- the commit for T inside block T+1 does not justify T ------------------------------
		lcMut("commit-v0-vote-removed", "reject", true, func(x *mctx, b *types.Block, lc *types.Commit) *types.Commit {
			if s := x.c.v0Slot(x.T); s >= 0 && s < len(lc.Precommits) {
				lc.Precommits[s] = nil
			}
			return nil
		}),
		lcMut("commit-v0-vote-removed-stale-commithash", "reject", false, func(x *mctx, b *types.Block, lc *types.Commit) *types.Commit {
			if s := x.c.v0Slot(x.T); s >= 0 && s < len(lc.Precommits) {
				lc.Precommits[s] = nil
			}
			return nil
		}),
		lcMut("commit-all-slots-nil", "reject", true, func(x *mctx, b *types.Block, lc *types.Commit) *types.Commit {
			lc.Precommits = make([]*types.Vote, len(lc.Precommits))
			return nil
		}),
		lcMut("commit-empty", "reject", true, func(x *mctx, b *types.Block, lc *types.Commit) *types.Commit { return &types.Commit{} }),
		lcMut("commit-one-slot-short", "reject", true, func(x *mctx, b *types.Block, lc *types.Commit) *types.Commit {
			lc.Precommits = lc.Precommits[:len(lc.Precommits)-1]
			return nil
		}),
		lcMut("commit-one-slot-too-many", "reject", true, func(x *mctx, b *types.Block, lc *types.Commit) *types.Commit {
			lc.Precommits = append(lc.Precommits, nil)
			return nil
		}),
		lcMut("commit-signed-by-non-validators", "reject", true, func(x *mctx, b *types.Block, lc *types.Commit) *types.Commit {
			return x.c.commitBy(x.T, x.T, lc.Round(), x.c.ids[x.T], func(i int, m member) *crypto.PrivKeyEd25519 { return &x.c.foreign[i%len(x.c.foreign)] })
		}),
		withOK(hasHarnessMember, lcMut("commit-signed-by-minority-only", "reject", true, func(x *mctx, b *types.Block, lc *types.Commit) *types.Commit {
			// V1.. really sign the genuine block; V0's slot is empty: < 1/3
			return x.c.commitBy(x.T, x.T, lc.Round(), x.c.ids[x.T], func(i int, m member) *crypto.PrivKeyEd25519 { return x.c.harnessOnly(m) })
		})),
		lcMut("commit-v0-slot-signed-with-another-key", "reject", true, func(x *mctx, b *types.Block, lc *types.Commit) *types.Commit {
			return x.c.commitBy(x.T, x.T, lc.Round(), x.c.ids[x.T], func(i int, m member) *crypto.PrivKeyEd25519 {
				if k := x.c.harnessOnly(m); k != nil {
					return k
				}
				hv := harnessValidators()[0]
				return &hv
			})
		}),
		lcMut("commit-shaped-for-another-validator-set", "reject", true, func(x *mctx, b *types.Block, lc *types.Commit) *types.Commit {
			// the slots of the set of another height (before / after a change): V0's genuine vote
			// in the slot V0 has there, members of that set (removed since, or not yet added) sign
			o := x.c.otherShapeHeight(x.T)
			if o == 0 {
				return &types.Commit{BlockID: lc.BlockID, Precommits: append(lc.Precommits, lc.Precommits...)}
			}
			var v0vote *types.Vote
			if s := x.c.v0Slot(x.T); s >= 0 && s < len(lc.Precommits) {
				v0vote = lc.Precommits[s]
			}
			cm := x.c.commitBy(o, x.T, lc.Round(), x.c.ids[x.T], func(i int, m member) *crypto.PrivKeyEd25519 { return x.c.harnessOnly(m) })
			if s := x.c.v0Slot(o); s >= 0 {
				cm.Precommits[s] = v0vote
			}
			return cm
		}),
		lcMut("commit-by-members-of-another-height-only", "reject", true, func(x *mctx, b *types.Block, lc *types.Commit) *types.Commit {
			// validators that were removed earlier or are not added yet sign, in this height's shape
			o := x.c.otherSetHeight(x.T)
			var ks []*crypto.PrivKeyEd25519
			if o != 0 {
				for _, m := range x.c.mem[o] {
					if k := x.c.harnessOnly(m); k != nil {
						ks = append(ks, k)
					}
				}
			}
			if len(ks) == 0 {
				hv := harnessValidators()[3]
				ks = append(ks, &hv)
			}
			return x.c.commitBy(x.T, x.T, lc.Round(), x.c.ids[x.T], func(i int, m member) *crypto.PrivKeyEd25519 { return ks[i%len(ks)] })
		}),
		lcMut("commit-of-previous-height", "reject", true, func(x *mctx, b *types.Block, lc *types.Commit) *types.Commit {
			if x.T >= 2 {
				return x.c.block(x.T).LastCommit // the genuine commit for T-1
			}
			return &types.Commit{}
		}),
		lcMut("commit-of-next-height", "reject", true, func(x *mctx, b *types.Block, lc *types.Commit) *types.Commit {
			if x.T+2 <= x.c.top {
				return x.c.block(x.T + 2).LastCommit // the genuine commit for T+1
			}
			return x.c.block(x.T).LastCommit
		}),
		lcMut("commit-for-another-blockid-by-minority-v0-genuine-prevote", "reject", true, func(x *mctx, b *types.Block, lc *types.Commit) *types.Commit {
			// V0's slot carries a vote V0 did sign for this block: its prevote
			cm := x.c.commitBy(x.T, x.T, lc.Round(), x.c.ids[x.T], func(i int, m member) *crypto.PrivKeyEd25519 { return x.c.harnessOnly(m) })
			if s := x.c.v0Slot(x.T); s >= 0 {
				k := x.c.keys[string(x.c.v0)]
				cm.Precommits[s] = x.c.vote(k, x.c.v0, s, x.T, lc.Round(), types.VoteTypePrevote, x.c.ids[x.T])
			}
			return cm
		}),
		lcMut("commit-v0-vote-height-field-altered", "reject", true, func(x *mctx, b *types.Block, lc *types.Commit) *types.Commit {
			if s := x.c.v0Slot(x.T); s >= 0 && lc.Precommits[s] != nil {
				lc.Precommits[s].Height++
			}
			return nil
		}),
		lcMut("commit-v0-vote-round-field-altered", "reject", true, func(x *mctx, b *types.Block, lc *types.Commit) *types.Commit {
			for _, pc := range lc.Precommits {
				if pc != nil {
					pc.Round++
				}
			}
			return nil
		}),
		lcMut("commit-v0-vote-blockid-altered", "reject", true, func(x *mctx, b *types.Block, lc *types.Commit) *types.Commit {
			if s := x.c.v0Slot(x.T); s >= 0 && lc.Precommits[s] != nil {
				lc.Precommits[s].BlockID = otherID
			}
			return nil
		}),
		lcMut("commit-v0-vote-parts-header-altered", "reject", true, func(x *mctx, b *types.Block, lc *types.Commit) *types.Commit {
			if s := x.c.v0Slot(x.T); s >= 0 && lc.Precommits[s] != nil {
				lc.Precommits[s].BlockID.PartsHeader.Total++
			}
			return nil
		}),
		lcMut("commit-v0-signature-bit-flipped", "reject", true, func(x *mctx, b *types.Block, lc *types.Commit) *types.Commit {
			if s := x.c.v0Slot(x.T); s >= 0 && lc.Precommits[s] != nil {
				sig := lc.Precommits[s].Signature.(crypto.SignatureEd25519)
				sig[7] ^= 0x10
				lc.Precommits[s].Signature = sig
			}
			return nil
		}),
		lcMut("commit-v0-signature-nil", "reject", true, func(x *mctx, b *types.Block, lc *types.Commit) *types.Commit {
			if s := x.c.v0Slot(x.T); s >= 0 && lc.Precommits[s] != nil {
				lc.Precommits[s].Signature = nil
			}
			return nil
		}),
		lcMut("commit-v0-signature-other-type", "reject", true, func(x *mctx, b *types.Block, lc *types.Commit) *types.Commit {
			if s := x.c.v0Slot(x.T); s >= 0 && lc.Precommits[s] != nil {
				lc.Precommits[s].Signature = crypto.SignatureSecp256k1(bytes.Repeat([]byte{7}, 70))
			}
			return nil
		}),
		lcMut("commit-v0-vote-type-prevote", "reject", true, func(x *mctx, b *types.Block, lc *types.Commit) *types.Commit {
			// V0's genuine prevote for this block in place of its precommit
			if s := x.c.v0Slot(x.T); s >= 0 {
				k := x.c.keys[string(x.c.v0)]
				lc.Precommits[s] = x.c.vote(k, x.c.v0, s, x.T, lc.Round(), types.VoteTypePrevote, x.c.ids[x.T])
			}
			return nil
		}),
		withOK(func(c *srcChain, T int64) bool { return len(c.mem[T]) >= 2 }, lcMut("commit-v0-vote-moved-to-another-slot", "reject", true, func(x *mctx, b *types.Block, lc *types.Commit) *types.Commit {
			s := x.c.v0Slot(x.T)
			o := (s + 1) % len(lc.Precommits)
			lc.Precommits[o], lc.Precommits[s] = lc.Precommits[s], nil
			return nil
		})),
		lcMut("commit-for-the-other-block-of-a-forged-first", "reject", true, func(x *mctx, b *types.Block, lc *types.Commit) *types.Commit {
			return x.c.commitBy(x.T, x.T, lc.Round(), otherID, func(i int, m member) *crypto.PrivKeyEd25519 { return x.c.harnessOnly(m) })
		}),

		// ---- forged pair: forged T and a forged T+1 whose LastCommit "justifies" it ----------------
		pairMut("forged-pair-signed-by-non-validators", func(x *mctx, fid types.BlockID) *types.Commit {
			return x.c.commitBy(x.T, x.T, 0, fid, func(i int, m member) *crypto.PrivKeyEd25519 { return &x.c.foreign[i%len(x.c.foreign)] })
		}),
		withOK(hasHarnessMember, pairMut("forged-pair-signed-by-minority", func(x *mctx, fid types.BlockID) *types.Commit {
			return x.c.commitBy(x.T, x.T, 0, fid, func(i int, m member) *crypto.PrivKeyEd25519 { return x.c.harnessOnly(m) })
		})),
		pairMut("forged-pair-with-the-genuine-commit-of-the-real-block", func(x *mctx, fid types.BlockID) *types.Commit {
			return x.genuineCommit()
		}),
		pairMut("forged-pair-minority-signs-v0-slot-holds-its-vote-for-the-real-block", func(x *mctx, fid types.BlockID) *types.Commit {
			g := x.genuineCommit()
			cm := x.c.commitBy(x.T, x.T, g.Round(), fid, func(i int, m member) *crypto.PrivKeyEd25519 { return x.c.harnessOnly(m) })
			if s := x.c.v0Slot(x.T); s >= 0 && s < len(g.Precommits) {
				cm.Precommits[s] = g.Precommits[s]
			}
			return cm
		}),
		pairMut("forged-pair-signed-by-members-of-another-height", func(x *mctx, fid types.BlockID) *types.Commit {
			o := x.c.otherSetHeight(x.T)
			if o == 0 {
				o = x.T
			}
			return x.c.commitBy(o, x.T, 0, fid, func(i int, m member) *crypto.PrivKeyEd25519 {
				if k := x.c.harnessOnly(m); k != nil {
					return k
				}
				return &x.c.foreign[0]
			})
		}),
		pairMut("forged-pair-one-key-in-every-slot", func(x *mctx, fid types.BlockID) *types.Commit {
			hv := harnessValidators()[0]
			return x.c.commitBy(x.T, x.T, 0, fid, func(i int, m member) *crypto.PrivKeyEd25519 { return &hv })
		}),

		// ---- structural / out of order --------------------------------------------------------------
		{name: "nil-block", fam: "structural", expect: "drop", onT: func(x *mctx) [][]byte { return resp(nil) }},
		{name: "nil-header", fam: "structural", expect: "drop", onT: func(x *mctx) [][]byte { b := x.c.block(x.T); b.Header = nil; return resp(b) }},
		{name: "nil-data", fam: "structural", expect: "drop", onT: func(x *mctx) [][]byte { b := x.c.block(x.T); b.Data = nil; return resp(b) }},
		{name: "nil-lastcommit", fam: "structural", expect: "drop", onT: func(x *mctx) [][]byte { b := x.c.block(x.T); b.LastCommit = nil; return resp(b) }},
		{name: "second-nil-lastcommit", fam: "structural", expect: "drop", onT1: func(x *mctx) [][]byte { b := x.c.block(x.T + 1); b.LastCommit = nil; return resp(b) }},
		{name: "blocks-swapped-next-served-for-this", fam: "structural", expect: "ignore", onT: func(x *mctx) [][]byte { return resp(x.c.block(x.T + 1)) }},
		{name: "block-far-ahead-served-for-this", fam: "structural", expect: "ignore", onT: func(x *mctx) [][]byte { return resp(x.c.block(x.c.top)) }},
		{name: "block-already-applied-served-for-this", fam: "structural", expect: "ignore", onT: func(x *mctx) [][]byte { return resp(x.c.block(x.T - 1)) }},
		{name: "response-truncated", fam: "structural", expect: "ignore", onT: func(x *mctx) [][]byte {
			b := encBC(&xBlockResponse{x.c.block(x.T)})
			return [][]byte{b[:1+x.rng.Intn(len(b)-1)]}
		}},
		{name: "genuine-then-tampered-duplicate", fam: "structural", expect: "ignore", onT: func(x *mctx) [][]byte {
			// the request is answered twice: the genuine block first, an altered one after it
			b := x.c.block(x.T)
			b.Data.Txs = append(types.Txs{types.Tx("smuggled-tx")}, b.Data.Txs...)
			return [][]byte{encBC(&xBlockResponse{x.c.block(x.T)}), encBC(&xBlockResponse{b})}
		}},
		{name: "tampered-then-genuine-duplicate", fam: "content", expect: "reject", onT: func(x *mctx) [][]byte {
			b := x.c.block(x.T)
			b.Data.Txs = append(types.Txs{types.Tx("smuggled-tx")}, b.Data.Txs...)
			return [][]byte{encBC(&xBlockResponse{b}), encBC(&xBlockResponse{x.c.block(x.T)})}
		}},

		// ---- tampered, but T is justified all the same (must be applied, nothing may break) -------------
		withOK(hasHarnessMember, lcMut("sufficient-small-validators-votes-added", "accept", true, func(x *mctx, b *types.Block, lc *types.Commit) *types.Commit {
			// precommits the small validators could have signed for this very block (their slots are empty in the chain)
			for i, m := range x.c.mem[x.T] {
				if k := x.c.harnessOnly(m); k != nil {
					lc.Precommits[i] = x.c.vote(*k, m.Addr, i, x.T, lc.Round(), types.VoteTypePrecommit, x.c.ids[x.T])
				}
			}
			return nil
		})),
		withOK(hasHarnessMember, lcMut("sufficient-small-validators-vote-for-another-block", "accept", true, func(x *mctx, b *types.Block, lc *types.Commit) *types.Commit {
			for i, m := range x.c.mem[x.T] {
				if k := x.c.harnessOnly(m); k != nil {
					lc.Precommits[i] = x.c.vote(*k, m.Addr, i, x.T, lc.Round(), types.VoteTypePrecommit, otherID)
				}
			}
			return nil
		})),
		withOK(hasHarnessMember, lcMut("sufficient-small-validators-vote-nil", "accept", true, func(x *mctx, b *types.Block, lc *types.Commit) *types.Commit {
			for i, m := range x.c.mem[x.T] {
				if k := x.c.harnessOnly(m); k != nil {
					lc.Precommits[i] = x.c.vote(*k, m.Addr, i, x.T, lc.Round(), types.VoteTypePrecommit, types.BlockID{})
				}
			}
			return nil
		})),
		lcMut("sufficient-commit-blockid-field-altered", "accept", true, func(x *mctx, b *types.Block, lc *types.Commit) *types.Commit {
			lc.BlockID = otherID
			return nil
		}),
		lcMut("sufficient-v0-vote-validator-index-altered", "accept", true, func(x *mctx, b *types.Block, lc *types.Commit) *types.Commit {
			// index and address of a vote are not covered by its signature
			if s := x.c.v0Slot(x.T); s >= 0 && lc.Precommits[s] != nil {
				lc.Precommits[s].ValidatorIndex = s + 1 + x.rng.Intn(3)
			}
			return nil
		}),
		lcMut("sufficient-v0-vote-validator-address-altered", "accept", true, func(x *mctx, b *types.Block, lc *types.Commit) *types.Commit {
			if s := x.c.v0Slot(x.T); s >= 0 && lc.Precommits[s] != nil {
				lc.Precommits[s].ValidatorAddress = x.c.foreign[0].PubKey().Address()
			}
			return nil
		}),
	}
	return ms
}

func withOK(ok func(c *srcChain, T int64) bool, m *mutation) *mutation {
	m.ok = ok
	return m
}

func (m *mutation) applicable(c *srcChain, T int64) bool {
	if T < 1 || T > c.top-1 {
		return false
	}
	if m.name == "block-already-applied-served-for-this" && T < 2 {
		return false
	}
	if m.expect == "accept" && T > c.top-2 {
		return false // needs T+2 to judge the altered T+1 afterwards (the final-block variant is a scenario of its own)
	}
	return m.ok == nil || m.ok(c, T)
}
