package main

import (
	"encoding/json"
	"fmt"
	"io/ioutil"
)

func dbgChain(args []string) {
	d, err := loadSource(args[0])
	if err != nil {
		fmt.Println("load:", err)
		return
	}
	b, _ := json.Marshal(d)
	ioutil.WriteFile(args[0], b, 0644)
	c, err := newSrcChain(d)
	if err != nil {
		fmt.Println("chain:", err)
		return
	}
	fmt.Println("changes at", c.changes)
	for h := int64(1); h <= c.top; h++ {
		s := ""
		for _, m := range c.mem[h] {
			s += fmt.Sprintf(" %X:%d", m.Addr[:3], m.Power)
		}
		fmt.Printf("h=%d near=%s v0slot=%d txs=%d set:%s\n", h, c.near(h), c.v0Slot(h), c.hdr[h].NumTxs, s)
	}
	sc := buildScenarios(c)
	for _, s := range sc {
		fmt.Println(s.ID, s.Kind, len(s.Episodes), s.Episodes)
		if len(args) > 1 {
			sj, _ := json.Marshal(s)
			ioutil.WriteFile(fmt.Sprintf("%s/spec-%d.json", args[1], s.ID), sj, 0644)
		}
	}
}
