package main

// The source chain as the harness peers and the oracle see it.

import (
	"bytes"
	"crypto/ed25519"
	"encoding/hex"
	"fmt"
	"strconv"

	crypto "github.com/dappledger/AnnChain/gemmill/go-crypto"
	wire "github.com/dappledger/AnnChain/gemmill/go-wire"
	"github.com/dappledger/AnnChain/gemmill/types"
)

type member struct {
	Addr  []byte
	Pub   []byte // 32 bytes
	Power int64
}

type srcChain struct {
	d        *chainDump
	id       string
	top      int64
	partSize int
	raw      map[int64][]byte                 // wire bytes of block h
	ids      map[int64]types.BlockID          // hash + parts header of block h
	hdr      map[int64]*types.Header          // decoded headers (read-only)
	sets     map[int64]*types.ValidatorSet    // the set in force at height h (signs the commit for block h), h = 1..top
	mem      map[int64][]member               // the same, as plain data for the oracle's own tally
	keys     map[string]crypto.PrivKeyEd25519 // by address: V0 and the harness validators
	foreign  []crypto.PrivKeyEd25519          // keys of nobody
	changes  []int64                          // heights h >= 2 whose set differs from the one at h-1 (members, powers or order)
	v0       []byte
}

func decodeBlock(b []byte) (*types.Block, error) {
	var n int
	var err error
	r := wire.ReadBinary(&types.Block{}, bytes.NewReader(b), 0, &n, &err)
	if err != nil {
		return nil, err
	}
	return r.(*types.Block), nil
}

func decodeSet(hx string) (*types.ValidatorSet, error) {
	b, err := hex.DecodeString(hx)
	if err != nil {
		return nil, err
	}
	var n int
	r := wire.ReadBinary(&types.ValidatorSet{}, bytes.NewReader(b), 0, &n, &err)
	if err != nil {
		return nil, err
	}
	return r.(*types.ValidatorSet), nil
}

func membersOf(vs *types.ValidatorSet) []member {
	var out []member
	for _, v := range vs.Validators {
		pk := v.PubKey.(crypto.PubKeyEd25519)
		out = append(out, member{Addr: append([]byte{}, v.Address...), Pub: append([]byte{}, pk[:]...), Power: v.VotingPower})
	}
	return out
}

func sameMembers(a, b []member) bool {
	if len(a) != len(b) {
		return false
	}
	for i := range a {
		if !bytes.Equal(a[i].Addr, b[i].Addr) || a[i].Power != b[i].Power {
			return false
		}
	}
	return true
}

func newSrcChain(d *chainDump) (*srcChain, error) {
	c := &srcChain{d: d, id: d.ChainID, top: d.Top, partSize: d.PartSize, raw: map[int64][]byte{}, ids: map[int64]types.BlockID{}, hdr: map[int64]*types.Header{},
		sets: map[int64]*types.ValidatorSet{}, mem: map[int64][]member{}, keys: map[string]crypto.PrivKeyEd25519{}}
	if int64(len(d.Blocks)) < d.Top {
		return nil, fmt.Errorf("dump has %d blocks, top %d", len(d.Blocks), d.Top)
	}
	for h := int64(1); h <= d.Top; h++ {
		b, err := hex.DecodeString(d.Blocks[h-1])
		if err != nil {
			return nil, err
		}
		blk, err := decodeBlock(b)
		if err != nil {
			return nil, fmt.Errorf("block %d: %v", h, err)
		}
		if !bytes.Equal(wire.BinaryBytes(blk), b) {
			return nil, fmt.Errorf("block %d does not re-encode to the stored bytes", h)
		}
		c.raw[h] = b
		ps := blk.MakePartSet(c.partSize)
		c.ids[h] = types.BlockID{Hash: blk.Hash(), PartsHeader: ps.Header()}
		c.hdr[h] = blk.Header
	}
	for h := int64(1); h <= d.Top; h++ {
		var hx string
		if h == 1 {
			hx = d.Genesis
		} else {
			o, ok := d.Obs[strconv.FormatInt(h-1, 10)]
			if !ok {
				return nil, fmt.Errorf("the source node's state after height %d was not observed", h-1)
			}
			hx = o.Validators
		}
		vs, err := decodeSet(hx)
		if err != nil {
			return nil, fmt.Errorf("validator set at %d: %v", h, err)
		}
		if !bytes.Equal(vs.Hash(), c.hdr[h].ValidatorsHash) {
			return nil, fmt.Errorf("observed validator set for height %d does not hash to the header's ValidatorsHash", h)
		}
		c.sets[h], c.mem[h] = vs, membersOf(vs)
		if h >= 2 && !sameMembers(c.mem[h], c.mem[h-1]) {
			c.changes = append(c.changes, h)
		}
	}
	v0 := v0Key()
	c.v0 = v0.PubKey().Address()
	c.keys[string(c.v0)] = v0
	for _, k := range harnessValidators() {
		c.keys[string(k.PubKey().Address())] = k
	}
	for i := 0; i < 8; i++ {
		c.foreign = append(c.foreign, nodeKey(fmt.Sprintf("foreign-%d", i)))
	}
	return c, nil
}

// block returns a fresh decoded copy of source block h (clamped to the chain).
func (c *srcChain) block(h int64) *types.Block {
	if h < 1 {
		h = 1
	}
	if h > c.top {
		h = c.top
	}
	b, err := decodeBlock(c.raw[h])
	if err != nil {
		panic(err)
	}
	return b
}

// near says how height h relates to the validator-set changes: "at" = the set in force at h
// differs from the one at h-1 (the commit for h has another shape than the one for h-1),
// "before" = the set changes right after h, "after" = h-1 was "at", "far" otherwise.
func (c *srcChain) near(h int64) string {
	is := func(x int64) bool {
		for _, ch := range c.changes {
			if ch == x {
				return true
			}
		}
		return false
	}
	switch {
	case is(h):
		return "at"
	case is(h + 1):
		return "before"
	case is(h - 1):
		return "after"
	}
	return "far"
}

// vote signs a vote "by" slot idx of the set in force at height setH (or with any key).
func (c *srcChain) vote(key crypto.PrivKeyEd25519, addr []byte, idx int, h, round int64, typ byte, bid types.BlockID) *types.Vote {
	v := &types.Vote{ValidatorAddress: addr, ValidatorIndex: idx, Height: h, Round: round, Type: typ, BlockID: bid}
	v.Signature = key.Sign(types.SignBytes(c.id, v))
	return v
}

// commitBy builds a commit shaped for the set in force at setH, for (h, round, bid), signed in
// every slot for which pick returns a key (nil = empty slot).
func (c *srcChain) commitBy(setH, h, round int64, bid types.BlockID, pick func(i int, m member) *crypto.PrivKeyEd25519) *types.Commit {
	ms := c.mem[clampH(setH, c.top)]
	cm := &types.Commit{BlockID: bid, Precommits: make([]*types.Vote, len(ms))}
	for i, m := range ms {
		if k := pick(i, m); k != nil {
			cm.Precommits[i] = c.vote(*k, m.Addr, i, h, round, types.VoteTypePrecommit, bid)
		}
	}
	return cm
}

func clampH(h, top int64) int64 {
	if h < 1 {
		return 1
	}
	if h > top {
		return top
	}
	return h
}

// own returns the real key of a member if the harness holds it.
func (c *srcChain) own(m member) *crypto.PrivKeyEd25519 {
	if k, ok := c.keys[string(m.Addr)]; ok {
		return &k
	}
	return nil
}

// tally is the oracle's own count (crypto/ed25519 of the standard library): voting power of
// the set in force at height h whose slot carries a valid precommit for exactly (h, bid).
func (c *srcChain) tally(h int64, bid types.BlockID, cm *types.Commit) (got, total int64, why string) {
	ms := c.mem[h]
	for _, m := range ms {
		total += m.Power
	}
	if cm == nil {
		return 0, total, "nil commit"
	}
	if len(cm.Precommits) != len(ms) {
		return 0, total, fmt.Sprintf("commit has %d slots, the set in force at %d has %d members", len(cm.Precommits), h, len(ms))
	}
	for i, pc := range cm.Precommits {
		if pc == nil || pc.Height != h || pc.Type != types.VoteTypePrecommit || !pc.BlockID.Equals(bid) {
			continue
		}
		sig, ok := pc.Signature.(crypto.SignatureEd25519)
		if !ok {
			continue
		}
		if ed25519.Verify(ed25519.PublicKey(ms[i].Pub), types.SignBytes(c.id, pc), sig[:]) {
			got += ms[i].Power
		}
	}
	return got, total, ""
}

func moreThanTwoThirds(got, total int64) bool {
	// got > 2/3 total without overflow for the powers used here
	return got*3 > total*2
}
