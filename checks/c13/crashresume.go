package main

// Crash-resume scenarios: the syncing node is killed while it is fast-syncing and
// restarted on the same runtime directory, again in fast-sync mode.
//
// One crash point = (h0, k, site filter). First life: the real node S (fast_sync =
// true, fresh directory) syncs from three honest harness peers that are at the
// top of the source chain. When the fast-sync executer closure of
// gemmill/angine.go has saved the state of height h0 (its last statement, the
// debug line "save to db", seen synchronously on poolRoutine's goroutine through
// the zap core of scenario.go) the durable-write failpoint
// (gemmill/modules/verifhook, build tag verif) is armed: the process sends SIGKILL
// to itself immediately before the k-th durable write after that point (k counts
// every write, or only the writes of one site), i.e. somewhere inside the commit
// cycle of h0+1 (blockStore.SaveBlock: parts, meta, commits, height descriptor;
// ApplyBlock -> EVMApp.OnCommit: tries, commit marker, receipts/key-value batch,
// key-value history; State.Save) or of the heights after it. A crash point S
// never reaches (it finished syncing first) is counted, not judged.
//
// Post-mortem (process gone): block store height, state height, the application's
// commit marker and a digest of every readable block, commit and meta.
//
// Second life: the same worker on the same directory (chain/core.NewNode with
// fast_sync = true, Start), the same three honest peers at the top (>= 2 blocks
// ahead of where S died). Oracle:
//   - the node is built and started without operator action; a process death at
//     start-up or during the resumed sync is a violation
//     (crash-resume:restart-fails:<panic site>; the window "application committed,
//     state not saved" known from C06 gets its own key, recognised by the
//     post-mortem heights application = block store = state + 1);
//   - it reaches top-1 within the 160 status rounds of the final phase
//     (crash-resume:wedged);
//   - every block it stores is the source chain's block and carries > 2/3
//     (checkStore), the blocks given to the application after the restart are
//     application height + 1, + 2, ... (none twice, none skipped);
//   - when caught up, state, validator sets, block store and application state
//     (nonces, counter contract storage, key-value store and history lengths,
//     receipts) equal the live source node's (compareFinal);
//   - every block, meta and seen commit that was readable right after the kill is
//     unchanged afterwards (second post-mortem).

import (
	"bytes"
	"encoding/hex"
	"encoding/json"
	"fmt"
	"io/ioutil"
	"os"
	"path/filepath"
	"sort"
	"strconv"
	"strings"
	"time"

	"verif/lib"
)

// ---- plan ----------------------------------------------------------------------------------------

// blockKinds: what block h of the source chain carries ("kv", "evm", "admin").
func blockKinds(c *srcChain, h int64) map[string]bool {
	kinds := map[string]bool{}
	byRaw := map[string]string{}
	for _, t := range c.d.Txs {
		byRaw[t.Raw] = t.Kind
	}
	for _, tx := range c.block(h).Data.Txs {
		switch k := byRaw[hex.EncodeToString(tx)]; {
		case k == "kv":
			kinds["kv"] = true
		case k == "admin":
			kinds["admin"] = true
		case k != "":
			kinds["evm"] = true
		}
	}
	return kinds
}

// pickH0: a height with validator-set changes before and after it whose successor (the block
// whose commit cycle the first crash points fall into) carries contract and key-value
// transactions, near frac*top (the seed chooses among the best candidates); the kill happens at most maxAhead heights later, the network
// must stay two blocks ahead.
func pickH0(c *srcChain, frac float64, not int64) int64 {
	type cand struct {
		h     int64
		score float64
	}
	var cs []cand
	for h := int64(2); h+maxAhead() <= c.top-2; h++ {
		before, after := false, false
		for _, ch := range c.changes {
			if ch <= h {
				before = true
			}
			if ch >= h+2 {
				after = true
			}
		}
		if !before || !after || h == not {
			continue
		}
		k := blockKinds(c, h+1)
		sc := float64(h) - frac*float64(c.top)
		if sc < 0 {
			sc = -sc
		}
		if !k["kv"] {
			sc += 3
		}
		if !k["evm"] {
			sc += 6
		}
		cs = append(cs, cand{h, sc})
	}
	if len(cs) == 0 {
		return 0
	}
	sort.SliceStable(cs, func(i, j int) bool { return cs[i].score < cs[j].score })
	// the seed chooses among the candidates that are about as good as the best one
	n := 0
	for n < len(cs) && cs[n].score <= cs[0].score+2.5 {
		n++
	}
	return cs[lib.Rand("c13-crash-resume-h0", int64(frac*100)).Intn(n)].h
}

type crashPoint struct {
	k      int64
	filter string
}

// crashPoints: quick = every ordinal of one commit cycle of the executer closure (13 durable
// writes for a block with contract and key-value transactions) plus 13 site-filtered ordinals
// (they reach into the next two cycles and cannot be shifted by writes of other goroutines);
// thorough = every ordinal 1..70 (five to six cycles) plus the same site-filtered ones.
func crashPoints() []crashPoint {
	var ps []crashPoint
	if lib.Thorough() {
		for k := int64(1); k <= 70; k++ {
			ps = append(ps, crashPoint{k, ""})
		}
	} else {
		for _, k := range quickOrdinals {
			ps = append(ps, crashPoint{k, ""})
		}
	}
	for k := int64(1); k <= 6; k++ {
		ps = append(ps, crashPoint{k, "godb.SetSync"})
	}
	for k := int64(1); k <= 3; k++ {
		ps = append(ps, crashPoint{k, "godb.BatchWrite"})
	}
	for k := int64(1); k <= 4; k++ {
		ps = append(ps, crashPoint{k, "ethdb.BatchWrite"})
	}
	return ps
}

// One commit cycle of the executer closure for a block with contract and key-value transactions is
// 13 durable writes: 1-4 godb.Set (block parts, meta, commit, seen commit), 5-6 godb.SetSync (block
// store flush and height descriptor), 7 godb.BatchWrite (plugin query cache in EndBlock), 8
// godb.SetSync (State.SaveIntermediate), 9 ethdb.BatchWrite (tries), 10 godb.SetSync (application
// commit marker), 11 ethdb.BatchWrite (receipts and key-value store), 12 ethdb.BatchWrite (key-value
// history), 13 godb.SetSync (State.Save).
var quickOrdinals = []int64{1, 2, 3, 4, 5, 6, 7, 8, 9, 10, 11, 12, 13}

// maxAhead: how many heights after h0 the latest crash point can fall (the network must stay two ahead).
func maxAhead() int64 { return int64(lib.Pick(3, 6)) }

func buildCrashResume(c *srcChain, firstID int) []*scenarioSpec {
	var h0s []int64
	if lib.Thorough() {
		a := pickH0(c, 0.3, 0)
		h0s = append(h0s, a)
		if b := pickH0(c, 0.65, a); b != 0 {
			h0s = append(h0s, b)
		}
	} else {
		h0s = append(h0s, pickH0(c, 0.5, 0))
	}
	var out []*scenarioSpec
	for _, h0 := range h0s {
		if h0 == 0 {
			continue
		}
		for _, p := range crashPoints() {
			out = append(out, &scenarioSpec{ID: firstID + len(out), Kind: "crash-resume", Seed: lib.Seed(), Tier: lib.Tier(), H0: h0, K: p.k, Filter: p.filter})
		}
	}
	return out
}

// ---- worker side: counters of crash-resume workers get their own names ---------------------------

// prefixCounters rewrites a crash-resume worker's export: its counters and distinct sets must not
// feed the thresholds of the tampering scenarios (syncs_completed, final_states_equal, ...).
func prefixCounters(out string, s *scenarioSpec) {
	if !s.crashResume() {
		return
	}
	b, err := ioutil.ReadFile(out)
	if err != nil {
		return
	}
	var e map[string]json.RawMessage
	if json.Unmarshal(b, &e) != nil {
		return
	}
	pre := "crash_resume_first_life_"
	if s.Phase == 2 {
		pre = "crash_resume_restart_"
	}
	var cnt map[string]int64
	if json.Unmarshal(e["counters"], &cnt) == nil {
		n := map[string]int64{}
		for k, v := range cnt {
			if k == "evaluations" {
				continue // the parent counts one evaluation per crash point
			}
			n[pre+k] = v
		}
		e["counters"], _ = json.Marshal(n)
	}
	var dis map[string][]string
	if json.Unmarshal(e["distinct"], &dis) == nil {
		n := map[string][]string{}
		for k, v := range dis {
			n[pre+k] = v
		}
		e["distinct"], _ = json.Marshal(n)
	}
	nb, err := json.Marshal(e)
	if err == nil {
		ioutil.WriteFile(out, nb, 0644)
	}
}

// ---- parent side ---------------------------------------------------------------------------------

type writeLog struct {
	site    string   // the write the process was killed in front of
	ordinal int64    // its armed ordinal
	armed   []string // sites of the armed (counted) writes before it, in order
	others  int      // durable writes after arming that the site filter did not count
}

func readWriteLog(path string) writeLog {
	var w writeLog
	b, _ := ioutil.ReadFile(path)
	for _, l := range strings.Split(string(b), "\n") {
		f := strings.Fields(l)
		if len(f) < 3 {
			continue
		}
		switch f[0] {
		case "+":
			w.armed = append(w.armed, f[2])
		case "~":
			w.others++
		case "!":
			// "! crash before <n> <site>"
			w.site = f[len(f)-1]
			w.ordinal, _ = strconv.ParseInt(f[len(f)-2], 10, 64)
		}
	}
	if w.site != "" && len(w.armed) > 0 {
		w.armed = w.armed[:len(w.armed)-1] // the last "+" line is the write that did not happen
	}
	return w
}

func executedIn(events string) (first, second []int64) {
	restarted := false
	for _, l := range strings.Split(events, "\n") {
		if strings.HasPrefix(l, "# RESTART") {
			restarted = true
		}
		if i := strings.Index(l, "Executed block height="); i >= 0 {
			f := strings.Fields(l[i+len("Executed block height="):])
			if len(f) > 0 {
				h, _ := strconv.ParseInt(f[0], 10, 64)
				if restarted {
					second = append(second, h)
				} else {
					first = append(first, h)
				}
			}
		}
	}
	return
}

func (s *scenarioSpec) pointLabel() string {
	f := s.Filter
	if f == "" {
		f = "any"
	}
	return fmt.Sprintf("h0=%d/%s#%d", s.H0, f, s.K)
}

func readPM(run *lib.Run, dir, dumpFile, rt string, p int, name string) postMortem {
	pm := postMortem{AppHeight: -1, Error: "post-mortem process wrote nothing"}
	pmf := filepath.Join(dir, name)
	r := runProc(dir, 2*time.Minute, []string{"VERIF_DISARMED=1"}, "postmortem", dumpFile, rt, strconv.Itoa(p), pmf)
	if b, e := ioutil.ReadFile(pmf); e == nil {
		pm = postMortem{}
		json.Unmarshal(b, &pm)
	} else if r.timedOut {
		pm.Error = "post-mortem process hit the watchdog"
	} else {
		pm.Error += ": " + tail(r.out, 600)
	}
	return pm
}

func fileComplete(path string) bool {
	b, e := ioutil.ReadFile(path)
	return e == nil && bytes.Contains(b, []byte(`"complete":true`))
}

func runCrashResume(run *lib.Run, base, dumpFile string, s *scenarioSpec, attempt int) {
	dir := filepath.Join(base, fmt.Sprintf("cr%d-%d", s.ID, attempt))
	os.MkdirAll(dir, 0755)
	defer os.RemoveAll(dir)
	rt := filepath.Join(dir, "rt")
	p := port()
	ps := strconv.Itoa(p)
	label := s.pointLabel()
	wd := 4 * time.Minute
	note := ""
	writeSpec := func(phase int) string {
		c := *s
		c.Phase, c.Note = phase, note
		b, _ := json.Marshal(&c)
		f := filepath.Join(dir, fmt.Sprintf("scenario-%d.json", phase))
		ioutil.WriteFile(f, b, 0644)
		return f
	}
	events := func() string { return readTail(filepath.Join(rt, "c13-node-events.log"), 1<<20) }
	again := func(why string) bool {
		if attempt == 0 {
			run.Count("crash_resume_points_repeated_"+why, 1)
			runCrashResume(run, base, dumpFile, s, 1)
			return true
		}
		return false
	}
	if attempt == 0 {
		run.Eval()
		run.Count("crash_resume_points_planned", 1)
	}

	// ---- first life: killed before durable write k after h0
	wlog := filepath.Join(dir, "writes.log")
	out1 := filepath.Join(dir, "out1.json")
	r := runProc(dir, wd, []string{"VERIF_DISARMED=1", "VERIF_WRITE_LOG=" + wlog}, "sync", dumpFile, rt, ps, writeSpec(1), out1)
	if r.timedOut {
		lib.WriteObservation(prop, fmt.Sprintf("watchdog-crash-resume-first-life-%s-seed%d", sanitizeLabel(label), lib.Seed()), map[string]interface{}{"scenario": s, "output_tail": tail(r.out, 40000), "node_events_tail": tail(events(), 6000)})
		if !again("after_watchdog") {
			run.Inconclusive(fmt.Sprintf("crash point %s: the first life hit the %v watchdog twice", label, wd))
		}
		return
	}
	if !r.signaled {
		if fileComplete(out1) {
			// S finished syncing before the crash point: an all-honest sync, judged as such, nothing about restarts
			if ie := run.Import(out1); ie != nil {
				run.Inconclusive(fmt.Sprintf("crash point %s: cannot import results: %v", label, ie))
			}
			run.Count("crash_resume_points_not_reached", 1)
			run.Distinct("crash_resume_points_not_reached_list", label)
			return
		}
		site, routine, crash := crashSite(r.out)
		pm := readPM(run, dir, dumpFile, rt, p, "pm0.json")
		run.Count("worker_crashes", 1)
		run.Violation("blocksync-panic:"+site+":none-all-honest", fmt.Sprintf("crash point %s: the syncing node's process died by itself (exit %d) in %s at %s with honest peers only, before the injected kill; block store at %d, state at %d: %s", label, r.exit, routine, site, pm.StoreHeight, pm.StateHeight, firstLine(crash)),
			map[string]interface{}{"scenario": s, "seed": lib.Seed(), "crash_output": crash, "post_mortem": pmHeights(pm), "node_events_tail": tail(events(), 6000)})
		return
	}
	wl := readWriteLog(wlog)
	if wl.site == "" {
		// killed, but not by the failpoint (the failpoint logs before it kills)
		run.Inconclusive(fmt.Sprintf("crash point %s: the worker was killed by a signal that did not come from the failpoint", label))
		return
	}
	ex1, _ := executedIn(events())

	// ---- post-mortem
	pm1 := readPM(run, dir, dumpFile, rt, p, "pm1.json")
	shape := fmt.Sprintf("store=state%+d application=state%+d", pm1.StoreHeight-pm1.StateHeight, pm1.AppHeight-pm1.StateHeight)
	witness := func(extra map[string]interface{}) map[string]interface{} {
		m := map[string]interface{}{"scenario": s, "seed": lib.Seed(), "crash_point": map[string]interface{}{"armed_after_height": s.H0, "killed_before_write": s.K, "counting_only_sites": s.Filter, "site": wl.site,
			"armed_writes_before_the_kill": wl.armed, "uncounted_writes_after_arming": wl.others},
			"post_mortem_heights": pmHeights(pm1), "post_mortem_shape": shape, "executed_in_first_life": ex1,
			"replay": fmt.Sprintf("VERIF_SEED=%d ./check C13 %s  (crash-resume point %s)", lib.Seed(), lib.Tier(), label)}
		for k, v := range extra {
			m[k] = v
		}
		return m
	}
	if pm1.Error != "" {
		run.Violation("crash-resume:stores-unreadable-after-kill:"+wl.site, fmt.Sprintf("crash point %s (killed before %s): block store / state cannot be opened afterwards: %s", label, wl.site, pm1.Error), witness(nil))
		return
	}
	died := int64(0)
	if len(ex1) > 0 {
		died = ex1[len(ex1)-1]
	}
	if pm1.StoreHeight > died {
		died = pm1.StoreHeight
	}
	run.Count("crash_resume_points_reached", 1)
	run.Count("crash_resume_kills_before_"+wl.site, 1)
	run.Distinct("crash_resume_points_reached_distinct", label+"->"+wl.site)
	run.Distinct("crash_resume_sites_hit", wl.site)
	run.Distinct("crash_resume_post_mortem_shapes", shape)
	run.Distinct("crash_resume_heights_died_at", fmt.Sprintf("h0=%d store=%d", s.H0, pm1.StoreHeight))
	run.Count("crash_resume_post_mortem_"+strings.Replace(shape, " ", "_", -1), 1)
	if s.Filter != "" {
		run.Count("crash_resume_points_reached_by_site_ordinal", 1)
	}
	run.Nontrivial("crash-resume|" + label + "|" + wl.site + "|" + shape)
	if pm1.FirstDiff > 0 {
		run.Violation("crash-resume:stored-block-differs-from-source-after-kill", fmt.Sprintf("crash point %s (killed before %s): the block store holds at height %d a block that is not the source chain's (%s)", label, wl.site, pm1.FirstDiff, tail(pm1.Detail, 300)), witness(nil))
		return
	}
	if died+2 > chainTop(dumpFile) {
		run.Inconclusive(fmt.Sprintf("crash point %s: the node died at %d, the source chain is not two blocks ahead", label, died))
		return
	}

	// ---- second life
	note = fmt.Sprintf("crash point %s: armed after height %d, killed before durable write %d = %s; post-mortem block store %d, application %d, state %d", label, s.H0, s.K, wl.site, pm1.StoreHeight, pm1.AppHeight, pm1.StateHeight)
	out2 := filepath.Join(dir, "out2.json")
	r2 := runProc(dir, wd, []string{"VERIF_DISARMED=1"}, "sync", dumpFile, rt, ps, writeSpec(2), out2)
	run.Count("crash_resume_restarts", 1)
	if r2.timedOut {
		lib.WriteObservation(prop, fmt.Sprintf("watchdog-crash-resume-restart-%s-seed%d", sanitizeLabel(label), lib.Seed()), map[string]interface{}{"scenario": s, "output_tail": tail(r2.out, 40000), "node_events_tail": tail(events(), 6000), "post_mortem": pmHeights(pm1)})
		if !again("after_watchdog") {
			run.Inconclusive(fmt.Sprintf("crash point %s: the restart hit the %v watchdog twice", label, wd))
		}
		return
	}
	_, ex2 := executedIn(events())
	if !fileComplete(out2) {
		site, routine, crash := crashSite(r2.out)
		pm2 := readPM(run, dir, dumpFile, rt, p, "pm2.json")
		w := witness(map[string]interface{}{"crash_site": site, "crashed_routine": routine, "crash_output": crash, "exit": r2.exit, "killed_by_signal": r2.signaled,
			"post_mortem_heights_after_the_failed_restart": pmHeights(pm2), "executed_after_restart": ex2, "node_events_tail": tail(events(), 6000)})
		run.Count("crash_resume_restarts_failed", 1)
		if pm1.AppHeight == pm1.StoreHeight && pm1.StateHeight == pm1.StoreHeight-1 && len(ex2) == 0 && strings.Contains(r2.out, "is higher than core") {
			// the window known from C06: the kill fell between the application's commit marker
			// (SaveLastBlock in EVMApp.OnCommit) and State.Save of the executer closure
			run.Count("crash_resume_restart_fails_application_committed_state_not_saved", 1)
			run.Distinct("crash_resume_points_in_the_known_window", label+"->"+wl.site)
			run.Violation("crash-resume:restart-fails:application-committed-but-state-not-saved", fmt.Sprintf("crash point %s (armed after height %d, killed before write %d = %s): post-mortem block store %d, application %d, state %d; the node cannot be started again: %s", label, s.H0, s.K, wl.site, pm1.StoreHeight, pm1.AppHeight, pm1.StateHeight, firstLine(crash)), w)
		} else {
			when := "at start-up, while it was being built again (chain/core.NewNode)"
			if len(ex2) > 0 {
				when = fmt.Sprintf("during the resumed sync, after it had executed %d blocks", len(ex2))
			} else if strings.Contains(events(), "# RESTART") {
				when = "after it had been built again, before it executed a block"
			}
			run.Violation("crash-resume:restart-fails:"+site, fmt.Sprintf("crash point %s (armed after height %d, killed before write %d = %s): post-mortem block store %d, application %d, state %d; the restarted node's process died %s (exit %d) in %s at %s: %s", label, s.H0, s.K, wl.site, pm1.StoreHeight, pm1.AppHeight, pm1.StateHeight, when, r2.exit, routine, site, firstLine(crash)), w)
		}
		judgeStability(run, label, wl.site, pm1, pm2, witness)
		return
	}
	if b, e := ioutil.ReadFile(out2); e == nil && bytes.Contains(b, []byte(`left_fast_sync_early":1`)) {
		if again("after_leaving_fast_sync_early") {
			return
		}
		run.Count("crash_resume_restarts_that_left_fast_sync_early", 1)
	}
	if ie := run.Import(out2); ie != nil {
		run.Inconclusive(fmt.Sprintf("crash point %s: cannot import the restart's results: %v", label, ie))
	}
	pm2 := readPM(run, dir, dumpFile, rt, p, "pm2.json")
	judgeStability(run, label, wl.site, pm1, pm2, witness)
	if s.Filter == "" && (s.K == 70 || (!lib.Thorough() && s.K == quickOrdinals[len(quickOrdinals)-1])) {
		run.Sample(map[string]interface{}{"crash_point": label, "site": wl.site, "armed_durable_writes_before_the_kill_in_order": wl.armed, "post_mortem": pmHeights(pm1), "executed_in_first_life": ex1, "executed_after_restart": ex2, "heights_afterwards": pmHeights(pm2)})
	}
}

func sanitizeLabel(s string) string {
	return strings.NewReplacer("/", "_", "#", "_", "=", "", ".", "_").Replace(s)
}

func pmHeights(pm postMortem) map[string]interface{} {
	return map[string]interface{}{"block_store": pm.StoreHeight, "state": pm.StateHeight, "application": pm.AppHeight, "state_app_hash": pm.StateApp, "application_hash": pm.AppHash, "error": pm.Error}
}

var chainTopCache int64

func chainTop(dumpFile string) int64 {
	portMtx.Lock()
	defer portMtx.Unlock()
	if chainTopCache == 0 {
		b, _ := ioutil.ReadFile(dumpFile)
		var d struct {
			Top int64 `json:"top"`
		}
		json.Unmarshal(b, &d)
		chainTopCache = d.Top
	}
	return chainTopCache
}

// judgeStability: what was readable right after the kill is unchanged afterwards.
func judgeStability(run *lib.Run, label, site string, pm1, pm2 postMortem, witness func(map[string]interface{}) map[string]interface{}) {
	if pm2.Error != "" {
		run.Violation("crash-resume:stores-unreadable-after-restart", fmt.Sprintf("crash point %s (killed before %s): after the restart the block store / state cannot be opened: %s", label, site, pm2.Error), witness(nil))
		return
	}
	for i, b := range pm1.Blocks {
		if i >= len(pm2.Blocks) || pm2.Blocks[i] != b {
			var a interface{}
			if i < len(pm2.Blocks) {
				a = pm2.Blocks[i]
			}
			run.Violation("crash-resume:stored-block-changed-after-restart", fmt.Sprintf("crash point %s (killed before %s): block %d (bytes, meta or seen commit) was readable right after the kill and differs or is gone after the restart", label, site, b.H), witness(map[string]interface{}{"right_after_the_kill": b, "afterwards": a}))
			return
		}
		run.Count("crash_resume_blocks_stable_across_restart", 1)
	}
	run.Count("crash_resume_stability_comparisons", 1)
}
