package main

// The source chain: a real single-validator node V0 (child process) that
// followed consensus live. Its workload: contract deployment and calls,
// storage writes, key-value transactions and administrative requests that
// change the validator set through the real path (tx -> Admin contract ->
// precompile 0xfe -> vm.DefaultAdminContract -> Node.ExecAdminTx ->
// Angine.ExecAdminTx -> plugin.AdminOp -> EndBlock). The harness holds the keys
// of the validators that are added (V1, V2, V3) with small power: V0 keeps more
// than 2/3 and goes on alone.
//
// While it runs the child records, per height, the state the engine published
// (validator sets, hashes); before it exits it reads the application state
// through the application's query interface. Afterwards the parent reads blocks
// and seen commits from the block store (process gone).

import (
	"bytes"
	"crypto/ecdsa"
	"encoding/binary"
	"encoding/hex"
	"encoding/json"
	"fmt"
	"io/ioutil"
	"os"
	"path/filepath"
	"sort"
	"strconv"
	"strings"
	"time"

	ctypes "github.com/dappledger/AnnChain/chain/types"
	"github.com/dappledger/AnnChain/eth/accounts/abi"
	"github.com/dappledger/AnnChain/eth/common"
	ecore "github.com/dappledger/AnnChain/eth/core"
	"github.com/dappledger/AnnChain/eth/rlp"
	crypto "github.com/dappledger/AnnChain/gemmill/go-crypto"
	wire "github.com/dappledger/AnnChain/gemmill/go-wire"
	sm "github.com/dappledger/AnnChain/gemmill/state"
	gtypes "github.com/dappledger/AnnChain/gemmill/types"

	"verif/evmdrive"
	"verif/vnode"
)

// ---- what the source chain is -------------------------------------------------------

type stateObs struct {
	H              int64  `json:"h"`               // state after this height
	Validators     string `json:"validators"`      // wire bytes (hex) of State.Validators: the set in force at h+1
	LastValidators string `json:"last_validators"` // the set in force at h
	AppHash        string `json:"app_hash"`
	ReceiptsHash   string `json:"receipts_hash"`
	LastBlockID    string `json:"last_block_id"`
}

type txRec struct {
	Kind string `json:"kind"`
	Slot int64  `json:"submitted_at_height"`
	Raw  string `json:"raw"`
	Note string `json:"note,omitempty"`
}

type appObs struct {
	Nonces   map[string]uint64 `json:"nonces"`
	Counter  string            `json:"counter"`
	Slots    map[string]string `json:"store_slots"`
	KV       map[string]string `json:"kv"`
	KVHist   map[string]uint64 `json:"kv_history_lengths"` // key -> number of recorded updates (a block applied twice adds entries)
	Receipts map[string]string `json:"receipts"`           // tx hash -> digest of the stored receipt ("" = none)
	Balances map[string]string `json:"balances"`
	Height   int64             `json:"app_height"`
	AppHash  string            `json:"app_hash"`
}

type chainDump struct {
	ChainID     string              `json:"chain_id"`
	Dir         string              `json:"dir"`
	Port        int                 `json:"port"`
	Top         int64               `json:"top"`
	PartSize    int                 `json:"part_size"`
	Genesis     string              `json:"genesis_validators"` // wire bytes of the genesis validator set
	Blocks      []string            `json:"blocks"`             // wire bytes (hex) of block h at index h-1
	SeenCommits []string            `json:"seen_commits"`
	Obs         map[string]stateObs `json:"state_after"` // by height
	Txs         []txRec             `json:"txs"`
	App         appObs              `json:"app"`
	Validators  []string            `json:"harness_validator_labels"`
}

// ---- accounts and harness validators ---------------------------------------------------

var (
	keyA = evmdrive.Key("c13-A") // counter contract deployer / caller
	keyB = evmdrive.Key("c13-B") // key-value writer
	keyC = evmdrive.Key("c13-C") // storage contract deployer / caller
	keyT = evmdrive.Key("c13-T") // plain transfers (value 0: nobody holds a balance on this chain)
)

func adminAcct(i int) *ecdsa.PrivateKey { return evmdrive.Key(fmt.Sprintf("c13-admin-%d", i)) }

func counterAddr() common.Address { return evmdrive.ContractAddr(evmdrive.Addr(keyA), 0) }
func storeAddr() common.Address   { return evmdrive.ContractAddr(evmdrive.Addr(keyC), 0) }

func v0Key() crypto.PrivKeyEd25519 { return nodeKey(fmt.Sprintf("v0-%d", seedOf())) }

var seedOverride int64 = -1

func seedOf() int64 {
	if seedOverride >= 0 {
		return seedOverride
	}
	s, _ := strconv.ParseInt(os.Getenv("VERIF_SEED"), 10, 64)
	if s == 0 {
		s = 1
	}
	return s
}

// harnessValidators picks the keys of V1..V3: V1 sorts before V0 in the validator set (by
// address), V2 after it, so that adding them moves V0's slot in Commit.Precommits.
func harnessValidators() []crypto.PrivKeyEd25519 {
	v0 := v0Key().PubKey().Address()
	var before, after []crypto.PrivKeyEd25519
	for i := 0; len(before) < 2 || len(after) < 2; i++ {
		k := nodeKey(fmt.Sprintf("hv-%d-%d", seedOf(), i))
		if bytes.Compare(k.PubKey().Address(), v0) < 0 {
			before = append(before, k)
		} else {
			after = append(after, k)
		}
	}
	return []crypto.PrivKeyEd25519{before[0], after[0], before[1], after[1]}
}

// ---- administrative requests ----------------------------------------------------------------

var adminABI abi.ABI

func init() {
	var err error
	adminABI, err = abi.JSON(strings.NewReader(ecore.AdminABI))
	if err != nil {
		panic(err)
	}
}

type adminOp struct {
	Cmd     gtypes.ValidatorCmd
	Target  int // 0 = V0, 1.. = harness validators
	Power   int64
	Signers []int // who signs besides V0 (V0 always signs: it holds > 2/3)
}

// adminTx builds the operators' request (cmd/client/commands/admin_op.go) sent to the Admin contract.
func adminTx(acct int, op adminOp, keys []crypto.PrivKeyEd25519) []byte {
	sender := adminAcct(acct)
	target := keys[op.Target]
	attr := &gtypes.ValidatorAttr{PubKey: crypto.GetNodePubkeyBytes(target.PubKey()), Cmd: op.Cmd, Power: op.Power, Nonce: 0, Addr: evmdrive.Addr(sender).Bytes()}
	msg, _ := json.Marshal(attr)
	cmd := &gtypes.AdminOPCmd{CmdType: gtypes.AdminOpChangeValidator, Time: time.Unix(1600000000, 0).UTC(), Msg: msg}
	for _, s := range append([]int{0}, op.Signers...) {
		cmd.SInfos = append(cmd.SInfos, gtypes.SigInfo{PubKey: crypto.GetNodePubkeyBytes(keys[s].PubKey()), Signature: crypto.GetNodeSigBytes(keys[s].Sign(msg))})
	}
	if op.Cmd == gtypes.ValidatorCmdAddPeer {
		cmd.SelfSign = crypto.GetNodeSigBytes(target.Sign(msg))
	}
	body, _ := json.Marshal(cmd)
	data, err := adminABI.Pack(ecore.AdminMethod, gtypes.TagAdminOPTx(body))
	if err != nil {
		panic(err)
	}
	to := ecore.AdminTo
	return evmdrive.SignedTx(sender, 0, &to, 0, 50000000, 0, data)
}

// adminSchedule: height at which the request is submitted -> request. Every request comes from
// its own account (nonce 0), so a request does not depend on the fate of an earlier one.
func adminSchedule(top int64) map[int64]adminOp {
	add, upd, rem := gtypes.ValidatorCmdAddPeer, gtypes.ValidatorCmdUpdateNode, gtypes.ValidatorCmdRemoveNode
	m := map[int64]adminOp{
		2:  {Cmd: add, Target: 1},
		4:  {Cmd: upd, Target: 1, Power: 20},
		5:  {Cmd: add, Target: 2},
		7:  {Cmd: upd, Target: 2, Power: 10, Signers: []int{1}},
		9:  {Cmd: upd, Target: 1, Power: 30},
		11: {Cmd: rem, Target: 2, Signers: []int{1, 2}},
	}
	if top >= 30 {
		for h, op := range map[int64]adminOp{
			13: {Cmd: add, Target: 3},
			15: {Cmd: upd, Target: 3, Power: 5},
			17: {Cmd: upd, Target: 0, Power: 150}, // V0's own power
			19: {Cmd: rem, Target: 1},
			21: {Cmd: add, Target: 2}, // back again
			23: {Cmd: upd, Target: 2, Power: 40, Signers: []int{3}},
			25: {Cmd: add, Target: 4},
			27: {Cmd: rem, Target: 3, Signers: []int{2}},
			29: {Cmd: upd, Target: 4, Power: 1},
			31: {Cmd: upd, Target: 2, Power: 0}, // validator -> peer (member without power)
			33: {Cmd: rem, Target: 4},
		} {
			m[h] = op
		}
	}
	return m
}

// ---- the child ----------------------------------------------------------------------------

func obsOf(st *sm.State) stateObs {
	return stateObs{H: st.LastBlockHeight, Validators: hex.EncodeToString(wire.BinaryBytes(st.Validators)), LastValidators: hex.EncodeToString(wire.BinaryBytes(st.LastValidators)),
		AppHash: hex.EncodeToString(st.AppHash), ReceiptsHash: hex.EncodeToString(st.ReceiptsHash), LastBlockID: hex.EncodeToString(wire.BinaryBytes(st.LastBlockID))}
}

type queryer interface {
	Query([]byte) gtypes.Result
}

func digest8(b []byte) string {
	if len(b) == 0 {
		return ""
	}
	return libHash(b)
}

// observeApp reads the application state through its query interface. The application must
// have executed a block in this process (contract reads need its current header).
func observeApp(app queryer, txs []txRec) appObs {
	o := appObs{Nonces: map[string]uint64{}, KVHist: map[string]uint64{}, Slots: map[string]string{}, KV: map[string]string{}, Receipts: map[string]string{}, Balances: map[string]string{}}
	accts := []*ecdsa.PrivateKey{keyA, keyB, keyC, keyT}
	for i := 0; i < 24; i++ {
		accts = append(accts, adminAcct(i))
	}
	for _, k := range accts {
		a := evmdrive.Addr(k)
		r := app.Query(append([]byte{ctypes.QueryType_Nonce}, a.Bytes()...))
		var v uint64
		rlp.DecodeBytes(r.Data, &v)
		o.Nonces[hex.EncodeToString(a.Bytes())] = v
		rb := app.Query(append([]byte{ctypes.QueryType_Balance}, a.Bytes()...))
		o.Balances[hex.EncodeToString(a.Bytes())] = hex.EncodeToString(rb.Data)
	}
	to := counterAddr()
	call := evmdrive.SignedTx(keyA, 0, &to, 0, 1000000, 0, []byte{1})
	o.Counter = hex.EncodeToString(app.Query(append([]byte{ctypes.QueryType_Contract}, call...)).Data)
	for i := 0; i < 3; i++ {
		key := []byte(fmt.Sprintf("c13-key-%d", i))
		r := app.Query(append([]byte{ctypes.QueryType_Key}, key...))
		o.KV[string(key)] = fmt.Sprintf("%v:%x", r.Code, r.Data)
		page := make([]byte, 8)
		binary.BigEndian.PutUint32(page[0:4], 1)
		binary.BigEndian.PutUint32(page[4:8], 1)
		var hist gtypes.ValueHistoryResult
		rlp.DecodeBytes(app.Query(append([]byte{ctypes.QueryType_Key_Update_History}, append(page, key...)...)).Data, &hist)
		o.KVHist[string(key)] = uint64(hist.Total)
	}
	for _, t := range txs {
		raw, _ := hex.DecodeString(t.Raw)
		h := evmdrive.TxHash(raw)
		r := app.Query(append([]byte{ctypes.QueryType_Receipt}, h...))
		if r.Code == gtypes.CodeType_OK {
			o.Receipts[hex.EncodeToString(h)] = digest8(r.Data)
		} else {
			o.Receipts[hex.EncodeToString(h)] = ""
		}
	}
	return o
}

// sourceChild: source <dir> <port> <top> <outfile>
func sourceChild(args []string) {
	dir := args[0]
	port, _ := strconv.Atoi(args[1])
	top, _ := strconv.ParseInt(args[2], 10, 64)
	out := args[3]
	fail := func(f string, a ...interface{}) {
		ioutil.WriteFile(out+".err", []byte(fmt.Sprintf(f, a...)), 0644)
		os.Exit(5)
	}
	n, conf, err := newNode(dir, port, false)
	if err != nil {
		fail("NewNode: %v", err)
	}
	if err := n.Start(); err != nil {
		fail("Start: %v", err)
	}
	keys := append([]crypto.PrivKeyEd25519{v0Key()}, harnessValidators()...)
	sched := adminSchedule(top)
	d := &chainDump{ChainID: n.GenesisDoc.ChainID, Dir: dir, Port: port, Top: top, PartSize: conf.GetInt("block_part_size"), Obs: map[string]stateObs{}}
	st0 := n.Angine.VerifState()
	d.Genesis = hex.EncodeToString(wire.BinaryBytes(st0.Validators))
	var nA, nB, nC, nT uint64
	admins := 0
	submit := func(slot int64) {
		if slot > top-3 {
			return // the last blocks stay empty: the application state after top-1 and after top is the same
		}
		var txs []txRec
		add := func(kind string, raw []byte, note string) {
			txs = append(txs, txRec{Kind: kind, Slot: slot, Raw: hex.EncodeToString(raw), Note: note})
		}
		if nA == 0 {
			add("deploy-counter", evmdrive.SignedTx(keyA, 0, nil, 0, 3000000, 0, evmdrive.Deploy(evmdrive.CounterRuntime)), "")
		} else {
			to := counterAddr()
			add("call-counter", evmdrive.SignedTx(keyA, nA, &to, 0, 3000000, 0, nil), "")
		}
		nA++
		if slot%2 == 0 {
			add("kv", evmdrive.KVTx(keyB, nB, []byte(fmt.Sprintf("c13-key-%d", nB%3)), []byte(fmt.Sprintf("v-%d", nB))), "")
			nB++
		}
		if nC == 0 {
			add("deploy-store", evmdrive.SignedTx(keyC, 0, nil, 0, 3000000, 0, evmdrive.Deploy(evmdrive.StoreRuntime)), "")
			nC++
		} else if slot%3 != 0 {
			to := storeAddr()
			data := make([]byte, 64)
			data[31] = byte(slot % 5)
			data[63] = byte(slot)
			add("call-store", evmdrive.SignedTx(keyC, nC, &to, 0, 3000000, 0, data), "")
			nC++
		}
		if slot%4 == 1 {
			to := evmdrive.Addr(keyB)
			add("transfer", evmdrive.SignedTx(keyT, nT, &to, 0, 21000, 0, nil), "")
			nT++
		}
		if op, ok := sched[slot]; ok {
			add("admin", adminTx(admins, op, keys), fmt.Sprintf("%s target=V%d power=%d", op.Cmd, op.Target, op.Power))
			admins++
		}
		for _, t := range txs {
			raw, _ := hex.DecodeString(t.Raw)
			if err := n.Angine.BroadcastTx(raw); err != nil {
				t.Note += " SUBMIT-ERROR " + err.Error()
			}
			d.Txs = append(d.Txs, t)
		}
	}
	lastStore, lastState := int64(-1), int64(-1)
	since := time.Now()
	for {
		if st := n.Angine.VerifState(); st.LastBlockHeight != lastState {
			lastState = st.LastBlockHeight
			d.Obs[strconv.FormatInt(lastState, 10)] = obsOf(st)
		}
		h := n.Angine.Height()
		if h != lastStore {
			lastStore = h
			since = time.Now()
			if h >= top {
				for i := 0; i < 4000 && n.Angine.VerifState().LastBlockHeight < h; i++ {
					time.Sleep(time.Millisecond)
				}
				st := n.Angine.VerifState()
				d.Obs[strconv.FormatInt(st.LastBlockHeight, 10)] = obsOf(st)
				d.App = observeApp(n.Application, d.Txs)
				info := n.Application.Info()
				d.App.Height, d.App.AppHash = info.LastBlockHeight, hex.EncodeToString(info.LastBlockAppHash)
				b, _ := json.Marshal(d)
				if err := ioutil.WriteFile(out, b, 0644); err != nil {
					fail("write: %v", err)
				}
				os.Exit(0)
			}
			submit(h)
		}
		if time.Since(since) > 60*time.Second {
			_, rs := n.Angine.GetConsensusStateInfo()
			fail("stuck at height %d: %v", h, rs)
		}
		time.Sleep(500 * time.Microsecond)
	}
}

// loadSource completes the dump from the block store of the stopped node.
func loadSource(dumpFile string) (*chainDump, error) {
	b, err := ioutil.ReadFile(dumpFile)
	if err != nil {
		return nil, err
	}
	d := &chainDump{}
	if err := json.Unmarshal(b, d); err != nil {
		return nil, err
	}
	st, err := vnode.OpenStores(d.Dir, d.Port)
	if err != nil {
		return nil, err
	}
	defer st.Close()
	if st.Store.Height() < d.Top {
		return nil, fmt.Errorf("source block store is at %d, wanted %d", st.Store.Height(), d.Top)
	}
	for h := int64(1); h <= d.Top; h++ {
		blk := st.Store.LoadBlock(h)
		sc := st.Store.LoadSeenCommit(h)
		if blk == nil || sc == nil {
			return nil, fmt.Errorf("source block %d unreadable", h)
		}
		d.Blocks = append(d.Blocks, hex.EncodeToString(wire.BinaryBytes(blk)))
		d.SeenCommits = append(d.SeenCommits, hex.EncodeToString(wire.BinaryBytes(sc)))
	}
	var hv []string
	for _, k := range harnessValidators() {
		hv = append(hv, hex.EncodeToString(k.PubKey().Address()))
	}
	d.Validators = hv
	return d, nil
}

func sortedKeys(m map[string]string) []string {
	var ks []string
	for k := range m {
		ks = append(ks, k)
	}
	sort.Strings(ks)
	return ks
}

func srcGenesisFile(dir string) string { return filepath.Join(dir, "genesis.json") }
