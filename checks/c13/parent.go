package main

import (
	"bytes"
	"encoding/json"
	"fmt"
	"io/ioutil"
	"os"
	"os/exec"
	"path/filepath"
	"strconv"
	"strings"
	"sync"
	"time"

	"github.com/dappledger/AnnChain/chain/app/evm"
	wire "github.com/dappledger/AnnChain/gemmill/go-wire"
	"github.com/dappledger/AnnChain/gemmill/types"

	"verif/lib"
	"verif/vnode"
)

type procResult struct {
	out      string
	signaled bool
	exit     int
	timedOut bool
}

func runProc(logdir string, watchdog time.Duration, env []string, args ...string) procResult {
	logfile := filepath.Join(logdir, fmt.Sprintf("proc-%s-%d.log", args[0], time.Now().UnixNano()))
	out, to, err := lib.RunCmd(watchdog, logfile, env, os.Getenv("VERIF_SELF"), args...)
	r := procResult{out: out, timedOut: to}
	if ee, ok := err.(*exec.ExitError); ok {
		if ws, ok := ee.Sys().(interface{ Signaled() bool }); ok && ws.Signaled() {
			r.signaled = true
		}
		r.exit = ee.ExitCode()
	} else if err != nil {
		r.exit = -1
	}
	return r
}

var portMtx sync.Mutex
var nextPort = 20000 + (os.Getpid()%100)*100 // below the ephemeral range (outgoing connections of the harness peers take ports from there)

func port() int {
	portMtx.Lock()
	defer portMtx.Unlock()
	nextPort++
	return nextPort
}

func tail(s string, n int) string {
	if len(s) > n {
		return s[len(s)-n:]
	}
	return s
}

// buildSource runs the real validator node V0 for `top` heights and returns the path of the dump.
func buildSource(run *lib.Run, base string, top int64) (string, *chainDump) {
	dir := filepath.Join(base, "source")
	p := port()
	for attempt := 0; attempt < 2; attempt++ {
		os.RemoveAll(dir)
		r := runProc(base, 2*time.Minute, nil, "init", dir, strconv.Itoa(p), fmt.Sprintf("c13-%d", lib.Seed()), "v0")
		if r.exit != 0 || r.timedOut {
			run.Inconclusive("source init failed: " + tail(r.out, 400))
			return "", nil
		}
		dump := filepath.Join(base, "source.json")
		r = runProc(base, time.Duration(2*(attempt+1))*time.Minute+time.Duration(top)*2*time.Second, nil, "source", dir, strconv.Itoa(p), strconv.FormatInt(top, 10), dump)
		if r.timedOut {
			continue
		}
		if r.exit != 0 {
			e, _ := ioutil.ReadFile(dump + ".err")
			run.Inconclusive(fmt.Sprintf("source node failed (exit %d): %s %s", r.exit, e, tail(r.out, 600)))
			return "", nil
		}
		d, err := loadSource(dump)
		if err != nil {
			run.Inconclusive("source chain unreadable: " + err.Error())
			return "", nil
		}
		b, _ := json.Marshal(d)
		ioutil.WriteFile(dump, b, 0644)
		return dump, d
	}
	run.Inconclusive("source node hit the watchdog twice")
	return "", nil
}

// ---- scenario lists -----------------------------------------------------------------------

func buildScenarios(c *srcChain) []*scenarioSpec {
	rng := lib.Rand("c13-plan", 0)
	muts := catalogue()
	var eps []episodeSpec
	perMut := lib.Pick(3, 40) // thorough: every applicable target height of the chain
	for _, m := range muts {
		// targets by their relation to a validator-set change
		byNear := map[string][]int64{}
		for T := int64(1); T <= c.top-1; T++ {
			if m.applicable(c, T) {
				byNear[c.near(T)] = append(byNear[c.near(T)], T)
			}
		}
		order := []string{"at", "before", "after", "far"}
		rng.Shuffle(len(order), func(i, j int) { order[i], order[j] = order[j], order[i] })
		n := 0
		for round := 0; n < perMut && round < 64; round++ {
			for _, k := range order {
				ts := byNear[k]
				if len(ts) == 0 || n >= perMut {
					continue
				}
				i := rng.Intn(len(ts))
				eps = append(eps, episodeSpec{T: ts[i], Mut: m.name})
				byNear[k] = append(ts[:i:i], ts[i+1:]...)
				n++
			}
		}
	}
	rng.Shuffle(len(eps), func(i, j int) { eps[i], eps[j] = eps[j], eps[i] })
	nSurg := lib.Pick(12, 160)
	var out []*scenarioSpec
	add := func(s *scenarioSpec) {
		s.ID, s.Seed, s.Tier = len(out), lib.Seed(), lib.Tier()
		out = append(out, s)
	}
	add(&scenarioSpec{Kind: "control", Reopen: true})
	surg := make([]*scenarioSpec, nSurg)
	for i := range surg {
		surg[i] = &scenarioSpec{Kind: "surgical", Reopen: i < 2}
	}
	accept := map[string]bool{}
	for _, m := range muts {
		accept[m.name] = m.expect == "accept"
	}
	for i, e := range eps {
		k := i % nSurg
		if accept[e.Mut] {
			// tampering that lets T through: one per target and scenario (T is applied afterwards)
			for try := 0; try < nSurg; try++ {
				clash := false
				for _, o := range surg[k].Episodes {
					if accept[o.Mut] && o.T == e.T {
						clash = true
					}
				}
				if !clash {
					break
				}
				k = (k + 1) % nSurg
			}
		}
		surg[k].Episodes = append(surg[k].Episodes, e)
	}
	for _, s := range surg {
		add(s)
	}
	// tampering of the last block's LastCommit that leaves top-1 justified: that commit is stored
	// as the seen commit of the height the node switches to consensus at
	for _, m := range muts {
		if m.expect == "accept" && (m.ok == nil || m.ok(c, c.top-1)) {
			add(&scenarioSpec{Kind: "final", Episodes: []episodeSpec{{T: c.top - 1, Mut: m.name}}, Reopen: true})
		}
	}
	for i := 0; i < lib.Pick(6, 120); i++ {
		add(&scenarioSpec{Kind: "mix", P: 20 + rng.Intn(50), Budget: 4 + rng.Intn(8)})
	}
	for i := 0; i < lib.Pick(1, 3); i++ {
		add(&scenarioSpec{Kind: "silent"})
	}
	// the window between peek and pop under peer churn (swap.go); drawn last: the lists above do not move
	for i := 0; i < lib.Pick(2, 12); i++ {
		add(&scenarioSpec{Kind: "swap", Swaps: swapPlan(c, rng, muts)})
	}
	return out
}

// ---- a dead worker ---------------------------------------------------------------------------

// crashSite: innermost AnnChain frame of the panicking goroutine, and the routine it ran in.
func crashSite(output string) (site, routine, crash string) {
	i := strings.LastIndex(output, "\npanic: ")
	if j := strings.LastIndex(output, "fatal error: "); j > i {
		i = j
	}
	if i < 0 {
		if k := strings.LastIndex(output, "panic: "); k >= 0 {
			i = k
		} else {
			return "unknown", "unknown", tail(output, 3000)
		}
	}
	crash = output[i:]
	if len(crash) > 12000 {
		crash = crash[:12000]
	}
	g := crash
	if k := strings.Index(g, "\ngoroutine "); k >= 0 {
		g = g[k+1:]
		if e := strings.Index(g, "\n\n"); e >= 0 {
			g = g[:e]
		}
	}
	site, routine = "unknown", "unknown"
	var fns []string
	for _, l := range strings.Split(g, "\n") {
		if strings.HasPrefix(l, "\t") || strings.HasPrefix(l, "goroutine ") || strings.HasPrefix(l, "created by") || strings.HasPrefix(l, "panic(") {
			continue
		}
		if strings.Contains(l, "go-common.Panic") || strings.Contains(l, "go-common.panicLog") || strings.Contains(l, "runtime/debug") {
			continue
		}
		if k := strings.LastIndex(l, "("); k > 0 {
			l = l[:k]
		}
		if j := strings.LastIndex(l, "AnnChain/"); j >= 0 {
			fns = append(fns, l[j+len("AnnChain/"):])
		}
	}
	if len(fns) > 0 {
		site, routine = shortFn(fns[0]), shortFn(fns[len(fns)-1])
	}
	return
}

// shortFn: "gemmill/consensus/pbft.(*ConsensusState).reconstructLastCommit" -> "pbft.reconstructLastCommit"
func shortFn(f string) string {
	if i := strings.LastIndex(f, "/"); i >= 0 {
		f = f[i+1:]
	}
	if i := strings.Index(f, "(*"); i >= 0 {
		if j := strings.Index(f[i:], ")."); j >= 0 {
			f = f[:i] + f[i+j+2:]
		}
	}
	return f
}

type pmBlock struct {
	H          int64  `json:"h"`
	Bytes      string `json:"bytes_digest"` // "" = not loadable
	MetaHash   string `json:"meta_hash"`
	SeenCommit string `json:"seen_commit_digest"`
}

type postMortem struct {
	StoreHeight int64     `json:"store_height"`
	StateHeight int64     `json:"state_height"`
	AppHeight   int64     `json:"application_height"` // the application's own commit marker, read raw (-1 = unreadable)
	AppHash     string    `json:"application_hash"`
	StateApp    string    `json:"state_app_hash"`
	FirstDiff   int64     `json:"first_differing_height"`
	Detail      string    `json:"detail"`
	Error       string    `json:"error"`
	Blocks      []pmBlock `json:"blocks,omitempty"`
}

// postmortemChild: postmortem <dump> <dir> <port> <out>: compares the dead node's block store with the source
// and records what is readable in it (the node process must be gone).
func postmortemChild(args []string) {
	pm := postMortem{AppHeight: -1}
	defer func() {
		b, _ := json.Marshal(pm)
		ioutil.WriteFile(args[3], b, 0644)
	}()
	b, err := ioutil.ReadFile(args[0])
	if err != nil {
		pm.Error = err.Error()
		return
	}
	dump := &chainDump{}
	json.Unmarshal(b, dump)
	c, err := newSrcChain(dump)
	if err != nil {
		pm.Error = err.Error()
		return
	}
	p, _ := strconv.Atoi(args[2])
	st, err := vnode.OpenStores(args[1], p)
	if err != nil {
		pm.Error = err.Error()
		return
	}
	pm.StoreHeight = st.Store.Height()
	if st.State != nil {
		pm.StateHeight = st.State.LastBlockHeight
		pm.StateApp = hexs(st.State.AppHash)
	}
	for h := int64(1); h <= pm.StoreHeight; h++ {
		blk := st.Store.LoadBlock(h)
		pb := pmBlock{H: h}
		if blk != nil {
			pb.Bytes = libHash(wire.BinaryBytes(blk))
		}
		if meta := st.Store.LoadBlockMeta(h); meta != nil {
			pb.MetaHash = hexs(meta.Hash)
		}
		if sc := st.Store.LoadSeenCommit(h); sc != nil {
			pb.SeenCommit = libHash(wire.BinaryBytes(sc))
		}
		pm.Blocks = append(pm.Blocks, pb)
		if pm.FirstDiff == 0 && (h > c.top || blk == nil || !bytes.Equal(wire.BinaryBytes(blk), c.raw[h])) {
			pm.FirstDiff = h
			pm.Detail = fmt.Sprintf("stored block %d: %v", h, blk)
			if len(pm.Detail) > 4000 {
				pm.Detail = pm.Detail[:4000]
			}
		}
	}
	st.Close()
	// the application's own commit marker, read raw (as checks/c06 does)
	if conf, err := vnode.Conf(args[1], p); err == nil {
		ba := &types.BaseApplication{}
		if ba.InitBaseApplication(evm.AppName, conf.GetString("db_dir")) == nil {
			lb := &evm.LastBlockInfo{AppHash: make([]byte, 0)}
			if res, err := ba.LoadLastBlock(lb); err == nil {
				pm.AppHeight = 0
				if res != nil {
					pm.AppHeight, pm.AppHash = res.(*evm.LastBlockInfo).Height, hexs(res.(*evm.LastBlockInfo).AppHash)
				}
			}
			ba.Stop()
		}
	}
}

// reopenChild: reopen <dir> <port>: builds the node again on the synced directory (what a restart does).
func reopenChild(args []string) {
	p, _ := strconv.Atoi(args[1])
	n, _, err := newNode(args[0], p, true)
	if err != nil {
		fmt.Println("REOPEN-ERROR", err)
		os.Exit(4)
	}
	fmt.Println("REOPEN-OK", n.Angine.VerifState().LastBlockHeight, n.Angine.VerifBlockStore().Height())
	os.Exit(0)
}

func lastEpisode(inputs string) string {
	last := "none"
	for _, l := range strings.Split(inputs, "\n") {
		if strings.HasPrefix(l, "# episode ") {
			f := strings.Fields(l)
			if len(f) >= 3 {
				last = f[2]
			}
		} else if i := strings.Index(l, " (target "); i > 0 && !strings.HasPrefix(l, "#") {
			f := strings.Fields(l[:i])
			if len(f) >= 2 {
				last = f[len(f)-1]
			}
		}
	}
	return last
}

func runScenario(run *lib.Run, base, dumpFile string, s *scenarioSpec, attempt int) {
	dir := filepath.Join(base, fmt.Sprintf("s%d-%d", s.ID, attempt))
	os.MkdirAll(dir, 0755)
	defer os.RemoveAll(dir)
	rt := filepath.Join(dir, "rt")
	p := port()
	sj, _ := json.Marshal(s)
	specFile := filepath.Join(dir, "scenario.json")
	ioutil.WriteFile(specFile, sj, 0644)
	out := filepath.Join(dir, "out.json")
	wd := 4 * time.Minute
	r := runProc(dir, wd, nil, "sync", dumpFile, rt, strconv.Itoa(p), specFile, out)
	inputs, _ := ioutil.ReadFile(out + ".inputs")
	complete := false
	if b, e := ioutil.ReadFile(out); e == nil {
		complete = bytes.Contains(b, []byte(`"complete":true`))
		early := bytes.Contains(b, []byte(`"left_fast_sync_early":1`))
		if early && attempt == 0 {
			// the node left fast sync while nobody in its pool claimed a greater height: timing of the
			// harness's announcements, nothing to judge; once more
			run.Count("scenarios_repeated_after_leaving_fast_sync_early", 1)
			run.Count("scenarios_repeated_after_leaving_fast_sync_early_"+s.Kind, 1)
			runScenario(run, base, dumpFile, s, 1)
			return
		}
		if early {
			lib.WriteObservation(prop, fmt.Sprintf("left-fast-sync-early-scenario%d-seed%d", s.ID, lib.Seed()), map[string]interface{}{"scenario": s, "node_events_tail": readTail(filepath.Join(rt, "c13-node-events.log"), 12000), "inputs_tail": tail(string(inputs), 6000)})
		}
		if ie := run.Import(out); ie != nil {
			run.Inconclusive(fmt.Sprintf("scenario %d: cannot import results: %v", s.ID, ie))
		}
	}
	if r.timedOut {
		lib.WriteObservation(prop, fmt.Sprintf("watchdog-scenario%d-seed%d", s.ID, lib.Seed()), map[string]interface{}{"output_tail": tail(r.out, 60000), "inputs_tail": tail(string(inputs), 8000), "scenario": s})
		if attempt == 0 {
			runScenario(run, base, dumpFile, s, 1)
			return
		}
		run.Inconclusive(fmt.Sprintf("scenario %d (%s) hit the %v watchdog twice", s.ID, s.Kind, wd))
		return
	}
	if !complete {
		site, routine, crash := crashSite(r.out)
		mut := lastEpisode(string(inputs))
		var pm postMortem
		pmf := filepath.Join(dir, "pm.json")
		runProc(dir, time.Minute, nil, "postmortem", dumpFile, rt, strconv.Itoa(p), pmf)
		if b, e := ioutil.ReadFile(pmf); e == nil {
			json.Unmarshal(b, &pm)
		}
		w := map[string]interface{}{"scenario": s, "seed": lib.Seed(), "crash_site": site, "crashed_routine": routine, "crash_output": crash, "last_tampering": mut,
			"inputs_log_tail": tail(string(inputs), 20000), "post_mortem": pm, "node_events_tail": readTail(filepath.Join(rt, "c13-node-events.log"), 6000)}
		if pm.FirstDiff > 0 {
			run.Violation("forged-block-stored:"+mut, fmt.Sprintf("scenario %d (%s): after the node died its block store holds at height %d a block that is not the source chain's (%s)", s.ID, s.Kind, pm.FirstDiff, tail(pm.Detail, 300)), w)
		}
		run.Count("worker_crashes", 1)
		if s.Kind == "final" {
			run.Count("final_altered_commits_that_reached_the_store", 1)
			run.Count("final_altered_commits_decided", 1)
		}
		run.Violation("blocksync-panic:"+site+":"+mut, fmt.Sprintf("scenario %d (%s): the syncing node's process died (exit %d) in %s at %s while/after %s was served; block store at %d, state at %d: %s", s.ID, s.Kind, r.exit, routine, site, mut, pm.StoreHeight, pm.StateHeight, firstLine(crash)), w)
		return
	}
	if s.Reopen {
		rr := runProc(dir, 2*time.Minute, nil, "reopen", rt, strconv.Itoa(p))
		switch {
		case rr.timedOut:
			run.Inconclusive(fmt.Sprintf("scenario %d: reopening the synced node hit the watchdog", s.ID))
		case strings.Contains(rr.out, "REOPEN-OK"):
			run.Count("synced_nodes_reopened", 1)
		default:
			site, routine, crash := crashSite(rr.out)
			mut := "none"
			if len(s.Episodes) > 0 {
				mut = s.Episodes[len(s.Episodes)-1].Mut
			}
			run.Violation("synced-node-cannot-restart:"+site+":"+mut, fmt.Sprintf("scenario %d (%s): after the sync completed, building the node again on its directory fails in %s at %s: %s", s.ID, s.Kind, routine, site, firstLine(crash)),
				map[string]interface{}{"scenario": s, "seed": lib.Seed(), "crash_output": crash, "output_tail": tail(rr.out, 3000)})
		}
	}
}

func readTail(path string, n int) string {
	b, _ := ioutil.ReadFile(path)
	return tail(string(b), n)
}

func firstLine(s string) string {
	s = strings.TrimSpace(s)
	if i := strings.Index(s, "\n"); i > 0 {
		s = s[:i]
	}
	if len(s) > 400 {
		s = s[:400]
	}
	return s
}

func parent() {
	run := lib.NewRun(prop, "exploration")
	base := lib.Scratch(prop)
	defer os.RemoveAll(base)
	top := int64(lib.Pick(15, 40))
	dumpFile, d := buildSource(run, base, top)
	finish := func() {
		code := run.Finish()
		os.RemoveAll(base) // os.Exit skips the deferred removal
		os.Exit(code)
	}
	if d == nil {
		finish()
	}
	c, err := newSrcChain(d)
	if err != nil {
		run.Inconclusive("source chain: " + err.Error())
		finish()
	}
	run.Count("source_chain_height", c.top)
	run.Count("source_validator_set_changes", int64(len(c.changes)))
	run.Count("source_transactions", int64(len(d.Txs)))
	sizes := map[int]bool{}
	for h := int64(1); h <= c.top; h++ {
		sizes[len(c.mem[h])] = true
		run.Distinct("source_v0_commit_slot", strconv.Itoa(c.v0Slot(h)))
	}
	run.Count("source_distinct_set_sizes", int64(len(sizes)))
	scen := buildScenarios(c)
	nEp := 0
	for _, s := range scen {
		nEp += len(s.Episodes)
	}
	run.Count("episodes_planned", int64(nEp))
	crs := buildCrashResume(c, len(scen))
	if os.Getenv("C13_ONLY") == "crash-resume" { // development aid
		scen = scen[:1]
	}
	if os.Getenv("C13_ONLY") == "swap" { // development aid
		var only []*scenarioSpec
		for _, s := range scen {
			if s.Kind == "swap" {
				only = append(only, s)
			}
		}
		scen, crs = only, nil
	}
	h0s := map[int64]bool{}
	for _, s := range crs {
		h0s[s.H0] = true
	}
	lib.Parallel(len(scen)+len(crs), 12, func(i int) {
		if i < len(scen) {
			runScenario(run, base, dumpFile, scen[i], 0)
		} else {
			runCrashResume(run, base, dumpFile, crs[i-len(scen)], 0)
		}
	})

	nm := len(catalogue())
	nSwap, nSwapWin := 0, 0
	for _, s := range scen {
		if s.Kind == "swap" {
			nSwap++
			nSwapWin += len(s.Swaps)
		}
	}
	run.SetRule(fmt.Sprintf("source chain: a real single-validator node (chain/core.NewNode) follows consensus live for %d heights with contract deployments/calls, key-value and plain txs and administrative requests (add_peer/update_node/remove_node through the Admin contract and precompile 0xfe) that change size, order and powers of the validator set (%d changes); the syncing node is the same real node with fast_sync=true and a non-validator key in a worker process (one per scenario); its peers are harness peers over TCP. Scenario list fixed by seed and tier (%d scenarios): 1 all-honest control; surgical scenarios running %d episodes = (mutation of the catalogue of %d) x (target height: quick 3 per mutation chosen by relation to a validator-set change at/before/after/far, thorough every applicable height), where the honest peer serves only below the tampered height and one of three malicious peers serves the tampered first block, second block (LastCommit) or forged pair; final scenarios tampering with the last block's LastCommit so that top-1 stays justified (that commit becomes the seen commit the node switches to consensus with), followed by a rebuild of the node on its directory; mix scenarios (every malicious answer tampered with probability p, delays, duplicates, unsolicited answers); silent-peer scenarios (15 s pool timeout); %d swap scenarios with %d planned windows (targets seeded, spread over the chain, at least 3 apart, never the last two heights): all four peers announce the full height, the honest peer answers genuinely, a malicious peer asked for h or h+1 of a window not opened yet leaves and comes back instead of answering; at verifhook.Point(blockchain.PeekTwoBlocks) on poolRoutine's goroutine (after the peek of h and h+1, before h is judged, popped and executed) with the block store at h-1 and both honest answers acknowledged by a status round trip on the same connection, the honest peer's connection is closed, the harness waits (2 s watchdog) until the node's switch no longer lists it (the requester of h re-picks a malicious peer), the malicious peers push a forged block for h (forged block with consistent hashes / a seeded content mutation) 70 rounds 5 ms apart into the re-assigned requester, the routine goes on, the honest peer comes back; a window counts as staged when the peer was seen removed and a push went out while it was open, and as gone-on when the next Point finds the block store at >= h (the routine went straight from the peeked pair to execution); the store oracle runs on the director's goroutine at that Point, before the node touches h+1. Non-trivial = distinct (mutation, position, target height, relation) whose tampered answer was delivered and whose outcome was observed, and distinct staged swap windows (mutation, height, relation). Crash-resume scenarios (%d crash points = armed after height h0 in %v x (quick: every ordinal 1..13 of one commit cycle of the fast-sync executer closure, thorough: every ordinal 1..70; plus godb.SetSync 1..6, godb.BatchWrite 1..3, ethdb.BatchWrite 1..4)): the node syncs from three honest peers at the top, the durable-write failpoint sends SIGKILL to the process immediately before the k-th durable write after State.Save of h0, post-mortem of the directory, then the same node is built and started again on that directory with fast_sync=true and the same peers and must reach top-1 within the 160 status rounds with the same stores, state and application state as the live node; non-trivial = distinct (h0, ordinal, site hit, post-mortem shape) that was actually reached.", top, len(c.changes), len(scen), nEp, nm, nSwap, nSwapWin, len(crs), sortedH0(h0s)))
	run.Assume("the reference for 'a node that followed consensus live' is the source node itself: per-height state published by its engine, blocks and application state read through its query interface",
		"fault model: the harness signs with keys of validators holding < 1/3 of the power, with keys of nobody, and with V0's key only votes V0 can have produced for the same block (prevote); it never signs another block with V0's key",
		"re-admission to the pool: peers re-announce their height every 25 ms during episodes and every 250 ms (at most 160 times) in the final phase, a stand-in for the node's 10 s status-request ticker; the pool's own timers run in real time",
		"the node leaving fast sync early because every peer claiming a greater height happened to be out of its pool at a one-second tick is repeated once and otherwise not judged (pool.IsCaughtUp trusts peers' claims; C08/C12 territory)",
		"exactly-2/3 commits cannot be produced within the fault model on a chain whose single honest validator must hold > 2/3 to make progress alone",
		"crash-resume: the process is killed by SIGKILL to itself from the durable-write failpoint (build tag verif), the operating system and LevelDB keep what was written before; the arming point is the debug line 'save to db' of the executer closure seen synchronously through the node's logger; no operator action between kill and restart (same directory, same configuration, fast_sync=true)",
		"swap: the interleaving is forced from verifhook.Point(blockchain.PeekTwoBlocks) (build tag verif), which holds poolRoutine between peek and judgement while the node's receive paths run; that the honest answers were in the pool at the peek is inferred from the node's status response to a status request sent after them on the same connection (Receive is sequential per connection); whether a forged push landed in the re-assigned requester is not observable on a correct node (it pops the requester and drops the block)")
	// crash-resume: a crash point that was never reached is counted, not judged; enough must be reached
	if len(crs) > 0 {
		run.Require("crash_resume_points_reached_distinct", 8)
		run.Require("crash_resume_sites_hit", 3)
		run.Require("crash_resume_stability_comparisons", 8)
		run.Require("crash_resume_post_mortem_shapes", 2) // killed with the block store ahead of the state, and level with it
		run.Require("crash_resume_restart_syncs_completed", int64(len(crs)/2))
		run.Require("crash_resume_restart_final_states_equal", int64(len(crs)/2))
		run.Require("crash_resume_restart_final_application_states_equal", int64(len(crs)/2))
	} else {
		run.Inconclusive("no height of the source chain qualifies as crash-resume arming point (validator-set changes before and after it)")
	}
	if os.Getenv("C13_ONLY") == "crash-resume" {
		run.Inconclusive("development run: crash-resume scenarios only")
		finish()
	}
	if os.Getenv("C13_ONLY") == "swap" {
		run.Inconclusive("development run: swap scenarios only")
		run.Require("swap_windows_staged", int64(nSwapWin)/2)
		run.Require("swap_windows_staged_and_peeked_pair_went_on", int64(nSwapWin)/2)
		finish()
	}
	total := int64(len(scen))
	run.Require("controls_passed", 1)
	nFinal := int64(0)
	for _, s := range scen {
		if s.Kind == "final" {
			nFinal++
		}
	}
	run.Require("final_altered_commits_decided", nFinal-1)
	run.Require("syncs_completed", total*7/10)
	run.Require("final_states_equal", total*7/10)
	run.Require("final_application_states_equal", total*7/10)
	run.Require("source_validator_set_changes", int64(lib.Pick(5, 12)))
	run.Require("validator_set_changes_crossed", int64(lib.Pick(5, 12))*total*6/10)
	run.Require("tampered_responses_delivered", int64(nEp)*8/10)
	run.Require("verifier_rejections", int64(nEp)/2)
	run.Require("mutations_judged", int64(nm*8/10))
	run.Require("cells", int64(nm*lib.Pick(12, 25)/10))
	// swap scenarios: a run that staged no window between peek and pop says nothing about it (the waits in
	// the window are watchdogs: they decide whether a window counts, never the verdict)
	run.Require("swap_windows_staged", int64(nSwapWin)/2)
	run.Require("swap_windows_staged_and_peeked_pair_went_on", int64(nSwapWin)/2)
	finish()
}

func sortedH0(m map[int64]bool) []int64 {
	var out []int64
	for h := range m {
		out = append(out, h)
	}
	for i := range out {
		for j := i + 1; j < len(out); j++ {
			if out[j] < out[i] {
				out[i], out[j] = out[j], out[i]
			}
		}
	}
	return out
}
