package main

// Swap scenarios: the window between BlockPool.PeekTwoBlocks and PopRequest under peer churn.
//
// poolRoutine peeks the blocks h and h+1, judges h against the LastCommit of h+1 WITHOUT the
// pool's lock and only then pops and executes h. In between the requester of h can be reset
// (its peer removed) and filled again by whoever it turns to: AddBlock takes any block for the
// height from the peer the requester is currently assigned to, asked for or not. The node must
// go on with the block it judged, whatever the pool holds meanwhile.
//
// Staging (one worker, the real node S): H and the three team peers announce the full height.
// H answers every request genuinely; a team peer asked for a height that belongs to a window
// not opened yet (h or h+1 of a planned target) leaves and comes back instead of answering, so
// that the requester turns to somebody else until H is the one that delivers both; everything
// else the team answers genuinely. After each such answer H sends a status request on the same
// connection: S's status response (Receive is sequential per connection) tells that the block
// has been handed to the pool.
//
// verifhook.Point("blockchain.PeekTwoBlocks") runs on poolRoutine's goroutine after the peek and
// before the judgement. When it fires with S's block store at h-1, h a planned target, and both
// H's answers for h and h+1 acknowledged on H's current connection, the window is opened:
//  (1) H's connection is closed; bounded wait until S's switch no longer lists H
//      (Switch.StopPeerForError -> BlockchainReactor.RemovePeer -> pool.RemovePeer: the requesters
//      of everything H delivered are reset and pick another peer on their own goroutines);
//  (2) every connected team peer pushes one forged block for h (a "content" mutation of the
//      catalogue), a bounded number of rounds with short pauses (the rounds span more than the
//      250 ms a requester sleeps when it found no peer), so that one lands in the re-assigned
//      requester although its request has not gone out (requests leave from poolRoutine's loop);
//  (3) the callback returns: S judges what it peeked, pops and executes.
// H stays away during the window and is dialled again by the director's loop afterwards.
// At the next Point the block store tells whether poolRoutine went on with the pair it had peeked
// (store at >= h: judged, popped, executed without returning to the peek), and the director's
// goroutine runs the store oracle before S touches the next height. When the routine came back
// to the peek instead (the pool did not hold both blocks: it refuses an answer to a request that
// was queued for H's key before H left and reached H's next connection), the target is staged
// again, twice at most.
//
// Nothing here is an oracle: the waits are watchdogs that only decide whether a window counts
// as staged. The judgement is checkStore / finish / compareFinal of the other kinds: on the
// unchanged repository the node executes the block it judged, so nothing forged is ever stored.

import (
	"fmt"
	"math/rand"
	"sync/atomic"
	"time"

	"verif/lib"
)

const (
	swapPending = iota
	swapOpened  // the window was opened (whatever came of it): the team answers h and h+1 genuinely from now on
	swapPassed  // S got past h without a window
)

type swapTarget struct {
	spec  episodeSpec // T = the height whose requester is swapped, Mut = the content mutation pushed
	state int
	waits int // bounded waits for H's acknowledgement spent on this target
	again int // windows after which the routine came back to the peek (the target is staged again, twice at most)
}

type swapBarrier struct {
	idx int
	fn  func() // runs under d.mtx
}

type swapState struct {
	targets []*swapTarget
	byH     map[int64]*swapTarget
	// status-request barriers per connection: S answers every status request, plus one unsolicited
	// status response when the peer is added; n responses seen => at least n-1 of our requests
	// (and everything sent before them on that connection) have been through Receive
	sent, seen map[*rawPeer]int
	wait       map[*rawPeer][]swapBarrier
	answered   map[int64]*rawPeer    // H answered the request for this height on this connection
	acked      map[int64]*rawPeer    // ... and S has handed it to the pool
	inPool     map[*peerCtl]*rawPeer // team: S has processed this connection's announcement
	asking     map[*peerCtl]*rawPeer // team: a barrier for the announcement is outstanding
	confirm    *swapTarget           // a staged window whose outcome the next Point tells
	open       bool                  // a window is open (the director's loop stays)
	handing    bool                  // poolRoutine's goroutine is handing over to the oracle (the director's loop stays)
	checkReq   chan chan struct{}    // poolRoutine's goroutine asks the director's goroutine for checkStore
}

// swapPlan: a handful of target heights spread over the chain (never the last two heights: h+1
// must be peekable with its own successor pending), at least three apart (h and h+1 of one target
// do not overlap the next one's). Even positions push the forged block with consistent hashes,
// odd ones a seeded content mutation.
func swapPlan(c *srcChain, rng *rand.Rand, muts []*mutation) []episodeSpec {
	k := int64(lib.Pick(4, 8))
	lo, hi := int64(2), c.top-2
	span := hi - lo + 1
	if span < 1 {
		return nil
	}
	seg := span / k
	if seg < 1 {
		seg = 1
	}
	var out []episodeSpec
	prev := int64(-10)
	for i := int64(0); i < k; i++ {
		t := lo + i*seg + rng.Int63n(seg)
		if t < prev+3 {
			t = prev + 3
		}
		if t > hi {
			break
		}
		name := "forged-block-consistent-hashes"
		if len(out)%2 == 1 {
			var cand []string
			for _, m := range muts {
				if m.fam == "content" && m.onT != nil && m.onT1 == nil && m.name != "tampered-then-genuine-duplicate" && m.applicable(c, t) {
					cand = append(cand, m.name)
				}
			}
			if len(cand) > 0 {
				name = cand[rng.Intn(len(cand))]
			}
		}
		out = append(out, episodeSpec{T: t, Mut: name})
		prev = t
	}
	return out
}

func (d *director) initSwap() {
	s := &swapState{byH: map[int64]*swapTarget{}, sent: map[*rawPeer]int{}, seen: map[*rawPeer]int{}, wait: map[*rawPeer][]swapBarrier{},
		answered: map[int64]*rawPeer{}, acked: map[int64]*rawPeer{}, inPool: map[*peerCtl]*rawPeer{}, asking: map[*peerCtl]*rawPeer{},
		checkReq: make(chan chan struct{})}
	for _, es := range d.spec.Swaps {
		t := &swapTarget{spec: es}
		s.targets = append(s.targets, t)
		s.byH[es.T] = t
	}
	d.sw = s
	d.run.Count("swap_windows_planned", int64(len(s.targets)))
}

// hOnlyLocked: height x belongs to a window that has not been opened yet (caller holds d.mtx).
func (d *director) hOnlyLocked(x int64) bool {
	for _, t := range d.sw.targets {
		if t.state == swapPending && (x == t.spec.T || x == t.spec.T+1) {
			return true
		}
	}
	return false
}

// barrierLocked registers fn to run once S has been through everything sent on rp so far plus
// the status request returned (caller holds d.mtx and sends the message on rp, in order).
func (d *director) barrierLocked(rp *rawPeer, fn func()) []byte {
	s := d.sw
	s.sent[rp]++
	s.wait[rp] = append(s.wait[rp], swapBarrier{s.sent[rp], fn})
	return encBC(&xStatusRequest{0})
}

// onStatusResponse: S sent a status response on rp.
func (d *director) onStatusResponse(rp *rawPeer) {
	d.mtx.Lock()
	defer d.mtx.Unlock()
	s := d.sw
	s.seen[rp]++
	done := s.seen[rp] - 1
	w := s.wait[rp]
	for len(w) > 0 && w[0].idx <= done {
		w[0].fn()
		w = w[1:]
	}
	s.wait[rp] = w
}

// respondSwap: caller holds d.mtx. bounce = the team peer leaves and comes back instead of answering.
func (d *director) respondSwap(p *peerCtl, rp *rawPeer, h int64) (out []outMsg, bounce bool) {
	if h < 1 || h > d.c.top {
		return nil, false
	}
	g := outMsg{b: d.genuine(h)}
	if d.final {
		return []outMsg{g}, false
	}
	if p.honest {
		out = append(out, g)
		if d.hOnlyLocked(h) {
			s := d.sw
			s.answered[h] = rp
			out = append(out, outMsg{b: d.barrierLocked(rp, func() { s.acked[h] = rp })})
		}
		return out, false
	}
	if d.hOnlyLocked(h) {
		return nil, true
	}
	return []outMsg{g}, false
}

// bounce: a team peer leaves and comes back (one at a time per peer; rp is the connection the
// request came in on: if the peer has another one by now it has left since).
func (p *peerCtl) bounce(rp *rawPeer) {
	d := p.d
	p.dmtx.Lock()
	defer p.dmtx.Unlock()
	if atomic.LoadInt32(&p.leave) != 0 || p.conn() != rp {
		return
	}
	p.hangup()
	if err := p.dial(); err != nil {
		d.note("peer %s cannot come back: %v", p.name, err)
		return
	}
	d.run.Count("swap_team_peers_left_instead_of_answering", 1)
	p.announce()
}

// comeBack (keepPeers of a swap scenario): dial again unless somebody else is doing it.
func (p *peerCtl) comeBack() bool {
	p.dmtx.Lock()
	defer p.dmtx.Unlock()
	if atomic.LoadInt32(&p.leave) != 0 || p.connected() {
		return false
	}
	return p.dial() == nil
}

// announceSwap: after its announcement a team peer asks for S's status once per connection; the
// answer tells that S's pool knows the peer.
func (d *director) announceSwap(p *peerCtl, rp *rawPeer) {
	if p.honest {
		return
	}
	d.mtx.Lock()
	s := d.sw
	var msg []byte
	if s.inPool[p] != rp && s.asking[p] != rp {
		s.asking[p] = rp
		msg = d.barrierLocked(rp, func() { s.inPool[p] = rp })
	}
	d.mtx.Unlock()
	if msg != nil {
		rp.send(bcCh, msg)
	}
}

func (d *director) hListedByNode() bool {
	_, _, peers := d.node.Angine.GetP2PNetInfo()
	for _, p := range peers {
		if p.NodeInfo.Moniker == d.H.name {
			return true
		}
	}
	return false
}

// oracleNow: run checkStore on the director's goroutine and wait for it (watchdog 3 s).
func (d *director) oracleNow() {
	ack := make(chan struct{})
	select {
	case d.sw.checkReq <- ack:
		select {
		case <-ack:
		case <-time.After(3 * time.Second):
			d.run.Count("swap_oracle_handovers_not_acknowledged_in_time", 1)
		}
	case <-time.After(3 * time.Second):
		d.run.Count("swap_oracle_handovers_not_taken_in_time", 1)
	}
}

// onPoint runs on poolRoutine's goroutine, after PeekTwoBlocks has released the pool's lock and
// before the routine looks at what it peeked.
func (d *director) onPoint(site string) {
	if site != "blockchain.PeekTwoBlocks" {
		return
	}
	if d.isFailed() {
		select {} // the oracle has spoken: the node is left as the oracle saw it until the worker has written its report
	}
	sh := d.storeHeight()
	d.mtx.Lock()
	s := d.sw
	if d.final {
		d.mtx.Unlock()
		return
	}
	if t := s.confirm; t != nil {
		s.confirm, s.handing = nil, true
		d.mtx.Unlock()
		if sh >= t.spec.T {
			// poolRoutine went from the window straight on to judge, pop and execute: it had peeked both blocks
			d.run.Count("swap_windows_staged_and_peeked_pair_went_on", 1)
			d.run.Distinct("swap_windows_staged_at", fmt.Sprintf("%s@%d", t.spec.Mut, t.spec.T))
			d.run.Distinct("swap_mutations_pushed_into_a_staged_window", t.spec.Mut)
			d.run.Nontrivial(fmt.Sprintf("swap|%s|T%d|%s", t.spec.Mut, t.spec.T, d.c.near(t.spec.T)))
		} else {
			// the pool did not hold what H's acknowledged answers suggested: a request queued for H before
			// it left reaches H's next connection (requests name the peer's key) when the requester has
			// long turned to somebody else, and the pool refuses the answer
			d.run.Count("swap_windows_after_which_the_routine_came_back_to_the_peek", 1)
		}
		d.oracleNow()
		if d.isFailed() {
			select {}
		}
		d.mtx.Lock()
		s.handing = false
		if sh < t.spec.T && t.again < 2 {
			// once more at this height: H has to deliver h and h+1 again on its next connection
			t.again++
			t.state = swapPending
			delete(s.answered, t.spec.T)
			delete(s.answered, t.spec.T+1)
			delete(s.acked, t.spec.T)
			delete(s.acked, t.spec.T+1)
			d.run.Count("swap_windows_staged_again_at_the_same_height", 1)
		}
	}
	// targets S got past without a window
	for _, t := range s.targets {
		if t.state == swapPending && sh >= t.spec.T {
			t.state = swapPassed
			d.run.Count("swap_targets_passed_without_a_window", 1)
		}
	}
	cur := d.H.conn()
	ready := func(t *swapTarget) bool {
		h := t.spec.T
		return cur != nil && !cur.isClosed() && s.acked[h] == cur && s.acked[h+1] == cur
	}
	answered := func(t *swapTarget) bool {
		h := t.spec.T
		return cur != nil && !cur.isClosed() && s.answered[h] == cur && s.answered[h+1] == cur
	}
	// H has answered both but S's acknowledgement is still on its way: hold the routine for it, here
	// (store at h-1) and one height earlier (the next peek follows the execution of h-1 at once)
	for _, h := range []int64{sh + 1, sh + 2} {
		t := s.byH[h]
		if t == nil || t.state != swapPending || ready(t) || !answered(t) || t.waits >= 8 {
			continue
		}
		t.waits++
		d.mtx.Unlock()
		d.run.Count("swap_waits_for_the_acknowledgement_of_the_honest_answers", 1)
		waitUntil(250*time.Millisecond, func() bool {
			d.mtx.Lock()
			defer d.mtx.Unlock()
			return ready(t)
		})
		d.mtx.Lock()
	}
	t := s.byH[sh+1]
	if t == nil || t.state != swapPending || !ready(t) {
		d.mtx.Unlock()
		return
	}
	// ---- the window --------------------------------------------------------------------------
	h := t.spec.T
	t.state, s.open = swapOpened, true
	m := d.muts[t.spec.Mut]
	msgs := m.onT(&mctx{c: d.c, rng: d.rng, T: h})
	d.lastMut[h] = m.name
	d.note("swap window at height %d (%s a validator-set change): store at %d, H's answers for %d and %d acknowledged; %s is pushed", h, d.c.near(h), sh, h, h+1, m.name)
	d.mtx.Unlock()
	d.run.Count("swap_windows_opened", 1)
	if len(msgs) == 0 {
		d.mtx.Lock()
		s.open = false
		d.mtx.Unlock()
		return
	}
	teamIn := func() bool {
		d.mtx.Lock()
		defer d.mtx.Unlock()
		for _, p := range d.team {
			if rp := p.conn(); rp != nil && !rp.isClosed() && s.inPool[p] == rp {
				return true
			}
		}
		return false
	}
	if !waitUntil(time.Second, teamIn) {
		d.run.Count("swap_windows_without_a_team_peer_in_the_pool", 1)
	}
	// (1) the peer that delivered h goes
	atomic.StoreInt32(&d.H.leave, 1)
	d.H.hangup()
	removed := waitUntil(2*time.Second, func() bool { return !d.hListedByNode() })
	if removed {
		d.run.Count("swap_windows_honest_peer_removed", 1)
	}
	// (2) the team pushes the forged block for h
	pushes := 0
	logged := map[*peerCtl]bool{}
	for round := 0; round < 70; round++ {
		for _, p := range d.team {
			rp := p.conn()
			if rp == nil || rp.isClosed() {
				continue
			}
			for _, b := range msgs {
				if rp.send(bcCh, b) == nil {
					pushes++
					if !logged[p] {
						logged[p] = true
						d.mtx.Lock()
						d.logInput(p.name, fmt.Sprintf("%s (target %d) pushed unasked into the window between peek and pop of height %d", m.name, h, h), b)
						d.mtx.Unlock()
					}
				}
			}
		}
		time.Sleep(5 * time.Millisecond)
	}
	d.run.Count("swap_forged_pushes_sent", int64(pushes))
	atomic.AddInt64(&d.delivered, int64(pushes))
	d.run.Count("tampered_responses_delivered", int64(len(logged)))
	d.mtx.Lock()
	d.note("swap window at height %d closes: H removed=%v, %d forged pushes from %d team peers, store at %d", h, removed, pushes, len(logged), d.storeHeight())
	if removed && pushes > 0 {
		s.confirm = t
	}
	s.open = false
	d.mtx.Unlock()
	if removed && pushes > 0 {
		d.run.Count("swap_windows_staged", 1)
	}
	// (3) back to poolRoutine; H may come back
	atomic.StoreInt32(&d.H.leave, 0)
}

// runSwap: the director's loop of a swap scenario.
func (d *director) runSwap() {
	d.announceAll()
	tick := time.NewTicker(20 * time.Millisecond)
	defer tick.Stop()
	for i := 0; i < 3000 && !d.isFailed() && atomic.LoadInt32(&d.switched) == 0; i++ {
		select {
		case ack := <-d.sw.checkReq:
			d.checkStore()
			close(ack)
			continue
		case <-tick.C:
		}
		d.keepPeers()
		d.announceAll()
		d.checkStore()
		if d.storeHeight() >= d.c.top-1 {
			break
		}
		d.mtx.Lock()
		busy := d.sw.confirm != nil || d.sw.handing || d.sw.open
		for _, t := range d.sw.targets {
			if t.state == swapPending {
				busy = true
			}
		}
		d.mtx.Unlock()
		if !busy {
			break
		}
	}
	// whatever is left: no more windows, everybody answers genuinely (d.final is set by finish)
	d.mtx.Lock()
	for _, t := range d.sw.targets {
		if t.state == swapPending {
			t.state = swapPassed
			d.run.Count("swap_targets_not_reached", 1)
		}
	}
	d.mtx.Unlock()
	// (a handover to the oracle that is asked for after this loop has ended is bounded by the
	// watchdogs of oracleNow; finish and the end of the worker run checkStore themselves)
}
