// C04 — locking discipline. One real ConsensusState V; the harness holds the
// keys of all other validators and crafts every message V sees, so "what V had
// received" is known exactly. The oracle is computed from that ledger alone:
//
//	R1 after V's latest non-nil precommit (block B, round r): unless the ledger
//	   holds a polka (> 2/3 power, distinct validators, valid prevotes) for
//	   something other than B (nil included) in a round > r delivered before,
//	   every prevote V emits in a round > r is for B
//	R2 in that situation, when V proposes, its proposal carries B's parts header
//	R3 V precommits B in round r only if the ledger holds a polka for B in r
//	R4 V commits B only if the ledger holds > 2/3 precommits for B in one round
//	R5 at most one prevote and one precommit per round.
package main

import (
	"bytes"
	"fmt"
	"math/rand"
	"os"
	"path/filepath"
	"runtime/debug"
	"strconv"
	"time"

	"github.com/dappledger/AnnChain/gemmill/consensus/pbft"
	"github.com/dappledger/AnnChain/gemmill/types"

	"verif/lib"
	"verif/sim"
)

const prop = "C04"

type blk struct {
	id    types.BlockID
	parts *types.PartSet
	hex   string
}

type world struct {
	run    *lib.Run
	c      int64
	rng    *rand.Rand
	net    *sim.Net
	adv    *sim.Adversary
	V      int
	vnode  *sim.Node
	n      int
	powers []int64
	total  int64

	h      int64
	blocks []*blk // known blocks of this height
	// ledger: [type][round][block hex ("" = nil)][validator] = true
	ledger [2]map[int64]map[string]map[int]bool
	// V's emissions this height
	prevoted  map[int64]string
	precommit map[int64]string
	lastPC    struct {
		round int64
		block string
		set   bool
	}
	emittedSeen int
	failed      bool
	actions     []string
	stats       map[string]int
}

func (w *world) log(f string, a ...interface{}) {
	w.actions = append(w.actions, fmt.Sprintf(f, a...))
}

func (w *world) viol(key, what string) {
	if w.failed {
		return
	}
	w.failed = true
	tr := w.actions
	if len(tr) > 400 {
		tr = tr[len(tr)-400:]
	}
	w.run.ChildViolation(key, fmt.Sprintf("case %d: %s", w.c, what), map[string]interface{}{
		"case": w.c, "seed": lib.Seed(), "powers": w.powers, "V": w.V, "height": w.h, "actions": tr})
}

func (w *world) resetHeight(h int64) {
	w.h = h
	w.blocks = nil
	w.ledger = [2]map[int64]map[string]map[int]bool{{}, {}}
	w.prevoted = map[int64]string{}
	w.precommit = map[int64]string{}
	w.lastPC.set = false
}

func ti(typ byte) int {
	if typ == types.VoteTypePrecommit {
		return 1
	}
	return 0
}

func (w *world) record(typ byte, r int64, block string, val int) {
	m := w.ledger[ti(typ)]
	if m[r] == nil {
		m[r] = map[string]map[int]bool{}
	}
	if m[r][block] == nil {
		m[r][block] = map[int]bool{}
	}
	m[r][block][val] = true
}

func (w *world) power(typ byte, r int64, block string) int64 {
	var p int64
	for v := range w.ledger[ti(typ)][r][block] {
		p += w.powers[v]
	}
	return p
}

func (w *world) polka(typ byte, r int64, block string) bool {
	return w.power(typ, r, block)*3 > w.total*2
}

// polkaForElse: a polka for anything other than b in a round > r.
func (w *world) polkaForElse(r int64, b string) bool {
	for rr, byBlock := range w.ledger[0] {
		if rr <= r {
			continue
		}
		for blk := range byBlock {
			if blk != b && w.polka(types.VoteTypePrevote, rr, blk) {
				return true
			}
		}
	}
	return false
}

func (w *world) rs() *pbft.RoundState { return w.vnode.CS.VerifRoundState() }

// drain lets V process its own queued messages and judges every emission.
func (w *world) drain() {
	for w.net.StepInternal(w.V) {
		em := w.vnode.Emitted
		for ; w.emittedSeen < len(em); w.emittedSeen++ {
			w.judge(em[w.emittedSeen])
		}
		w.checkCommit()
	}
	w.checkCommit()
}

func (w *world) judge(e *sim.Env) {
	if w.failed || e.H != w.h {
		return
	}
	switch e.Kind {
	case "prevote":
		w.stats["v_prevotes"]++
		if old, ok := w.prevoted[e.R]; ok && old != e.Block {
			w.viol("two-prevotes-in-one-round", fmt.Sprintf("V prevoted %.8s and %.8s in round %d", old, e.Block, e.R))
			return
		}
		w.prevoted[e.R] = e.Block
		if w.lastPC.set && e.R > w.lastPC.round {
			w.stats["prevotes_while_locked_rule_applies"]++
			if e.Block != w.lastPC.block {
				if !w.polkaForElse(w.lastPC.round, w.lastPC.block) {
					w.viol("prevote-against-lock", fmt.Sprintf("V precommitted %.8s in round %d, received no polka for anything else in a later round, yet prevotes %.8s in round %d", w.lastPC.block, w.lastPC.round, e.Block, e.R))
					return
				}
				w.stats["prevote_other_after_unlock_polka"]++
			} else {
				w.stats["prevote_locked_block"]++
			}
		}
		w.record(types.VoteTypePrevote, e.R, e.Block, w.V)
	case "precommit":
		w.stats["v_precommits"]++
		if old, ok := w.precommit[e.R]; ok && old != e.Block {
			w.viol("two-precommits-in-one-round", fmt.Sprintf("V precommitted %.8s and %.8s in round %d", old, e.Block, e.R))
			return
		}
		w.precommit[e.R] = e.Block
		if e.Block != "" {
			w.stats["v_precommits_block"]++
			if !w.polka(types.VoteTypePrevote, e.R, e.Block) {
				w.viol("precommit-without-polka", fmt.Sprintf("V precommits %.8s in round %d but had received only %d of %d prevote power for it in that round", e.Block, e.R, w.power(types.VoteTypePrevote, e.R, e.Block), w.total))
				return
			}
			if w.lastPC.set && w.lastPC.block != e.Block {
				w.stats["relock_other_block"]++
			} else if w.lastPC.set {
				w.stats["relock_same_block"]++
			}
			w.lastPC.round, w.lastPC.block, w.lastPC.set = e.R, e.Block, true
		}
		w.record(types.VoteTypePrecommit, e.R, e.Block, w.V)
	case "proposal":
		w.stats["v_proposals"]++
		if w.lastPC.set && e.R > w.lastPC.round && !w.polkaForElse(w.lastPC.round, w.lastPC.block) {
			w.stats["proposals_while_locked_rule_applies"]++
			// proposal Block field = parts header hash; find the locked block's parts header
			var lockedParts string
			for _, b := range w.blocks {
				if b.hex == w.lastPC.block {
					lockedParts = fmt.Sprintf("%X", b.parts.Header().Hash)
				}
			}
			if lockedParts != "" && e.Block != lockedParts {
				w.viol("proposal-against-lock", fmt.Sprintf("V precommitted %.8s in round %d and proposes parts %.8s (not that block) in round %d", w.lastPC.block, w.lastPC.round, e.Block, e.R))
			}
		}
	}
}

func (w *world) checkCommit() {
	if w.failed {
		return
	}
	sh := w.vnode.Store.Height()
	if sh < w.h {
		return
	}
	b := w.vnode.Store.LoadBlock(w.h)
	hx := fmt.Sprintf("%X", b.Hash())
	ok := false
	for r := range w.ledger[1] {
		if w.polka(types.VoteTypePrecommit, r, hx) {
			ok = true
		}
	}
	w.stats["v_commits"]++
	if !ok {
		w.viol("commit-without-two-thirds-precommits", fmt.Sprintf("V committed %.8s at height %d but the ledger holds no round with > 2/3 precommits for it", hx, w.h))
		return
	}
	w.resetHeight(sh + 1)
}

func (w *world) proposerAt(r int64) int {
	rs := w.rs()
	vs := rs.Validators.Copy()
	if r > rs.Round {
		vs.IncrementAccum(r - rs.Round)
	} else if r < rs.Round {
		return -1
	}
	addr := vs.Proposer().Address
	for _, nd := range w.net.Nodes {
		if bytes.Equal(nd.Addr, addr) {
			return nd.Idx
		}
	}
	return -1
}

func (w *world) deliver(msg pbft.ConsensusMessage, from int) {
	e := w.net.Publish(from, true, msg)
	w.net.Deliver(w.V, e.ID)
	w.drain()
}

func (w *world) newBlock(proposer int) *blk {
	b, ps := w.adv.MakeBlock(w.vnode, proposer, []types.Tx{types.Tx(fmt.Sprintf("c04-%d-%d-%d", w.c, w.h, w.rng.Intn(1<<30)))})
	if b == nil {
		return nil
	}
	k := &blk{id: types.BlockID{Hash: b.Hash(), PartsHeader: ps.Header()}, parts: ps, hex: fmt.Sprintf("%X", b.Hash())}
	w.blocks = append(w.blocks, k)
	return k
}

// learn V's own proposed blocks (so that votes can be cast for them)
func (w *world) learnOwn() {
	rs := w.rs()
	if rs.ProposalBlock != nil && rs.ProposalBlockParts != nil && rs.ProposalBlockParts.IsComplete() {
		hx := fmt.Sprintf("%X", rs.ProposalBlock.Hash())
		for _, b := range w.blocks {
			if b.hex == hx {
				return
			}
		}
		w.blocks = append(w.blocks, &blk{id: types.BlockID{Hash: rs.ProposalBlock.Hash(), PartsHeader: rs.ProposalBlockParts.Header()}, parts: rs.ProposalBlockParts, hex: hx})
	}
}

func (w *world) propose(r int64, b *blk, sendParts bool, forged bool) {
	p := w.proposerAt(r)
	if p < 0 || p == w.V {
		return
	}
	signer := p
	if forged {
		signer = (p + 1) % w.n
		if signer == w.V {
			signer = (signer + 1) % w.n
		}
	}
	polR, polID := int64(-1), types.BlockID{}
	for rr := r - 1; rr >= 0; rr-- {
		if w.polka(types.VoteTypePrevote, rr, b.hex) {
			polR, polID = rr, b.id
			break
		}
	}
	w.log("proposal r%d by %d block %.8s pol %d forged=%v parts=%v", r, p, b.hex, polR, forged, sendParts)
	w.deliver(&pbft.ProposalMessage{Proposal: w.net.SignProposal(signer, w.h, r, b.parts.Header(), polR, polID)}, p)
	w.stats["proposals_sent"]++
	if sendParts {
		w.sendParts(r, b)
	}
}

func (w *world) sendParts(r int64, b *blk) {
	for i := 0; i < b.parts.Total(); i++ {
		if w.failed || w.rs().Height != w.h {
			return
		}
		w.deliver(&pbft.BlockPartMessage{Height: w.h, Round: r, Part: b.parts.GetPart(i)}, 0)
	}
}

func (w *world) vote(j int, typ byte, r int64, b *blk, mode string) {
	if j == w.V || w.failed {
		return
	}
	rs := w.rs()
	if rs.Height != w.h {
		return
	}
	var bid types.BlockID
	hx := ""
	if b != nil {
		bid, hx = b.id, b.hex
	}
	v := w.net.SignVote(rs.Validators, j, w.h, r, typ, bid)
	valid := true
	switch mode {
	case "forged":
		other := (j + 1) % w.n
		v.Signature = w.net.Keys[other].Sign(types.SignBytes(w.net.Cfg.ChainID, v))
		valid = false
	case "wrongindex":
		v.ValidatorIndex = (v.ValidatorIndex + 1) % w.n
		valid = false
	case "unknownblock":
		v = w.net.SignVote(rs.Validators, j, w.h, r, typ, types.BlockID{Hash: []byte(fmt.Sprintf("unknown-block-%08d", w.rng.Intn(1000))), PartsHeader: types.PartSetHeader{Total: 1, Hash: []byte("unknownunknownunknown")}})
		hx = fmt.Sprintf("%X", v.BlockID.Hash)
	}
	w.log("vote %s t%d r%d by %d for %.8s", mode, typ, r, j, hx)
	if valid {
		// "received" = delivered to V as a validly signed vote of that validator for this height/round
		w.record(typ, r, hx, j)
	}
	w.stats["votes_sent_"+mode]++
	w.deliver(&pbft.VoteMessage{Vote: v}, j)
}

func (w *world) others() []int {
	var o []int
	for i := 0; i < w.n; i++ {
		if i != w.V {
			o = append(o, i)
		}
	}
	return o
}

// votesUntil sends votes of puppets for b (in random order) until power frac of others voted.
func (w *world) votesFrom(typ byte, r int64, b *blk, frac float64) {
	for _, k := range w.rng.Perm(w.n) {
		if k == w.V || w.rng.Float64() > frac {
			continue
		}
		w.vote(k, typ, r, b, "valid")
	}
}

func (w *world) fire(step pbft.RoundStepType) bool {
	if w.failed {
		return false
	}
	nd := w.vnode
	for k := len(nd.Timeouts) - 1; k >= 0; k-- {
		if nd.Timeouts[k].Step == step && nd.Timeouts[k].Height == w.h {
			w.log("timeout %v r%d", step, nd.Timeouts[k].Round)
			w.net.Fire(w.V, k)
			w.drain()
			w.stats["timeouts"]++
			return true
		}
	}
	return false
}

// puppetsByPower returns the puppets in a seeded order.
func (w *world) puppetsInOrder() []int {
	var o []int
	for _, k := range w.rng.Perm(w.n) {
		if k != w.V {
			o = append(o, k)
		}
	}
	return o
}

// moveOn makes V leave round r with +2/3-any nil precommits.
func (w *world) moveOn(r int64) {
	w.votesFrom(types.VoteTypePrecommit, r, nil, 1.0)
	w.fire(pbft.RoundStepPrecommitWait)
}

// scenarioRelockThenLatePolka: V locks B in round r0, a polka for C forms in r0+1 but V sees only part
// of it before it precommits nil, B gets a new polka in r0+2 (V precommits B again), the rest of the
// r0+1 prevotes for C arrives late, and a fresh block D is proposed in r0+3.
func (w *world) scenarioRelockThenLatePolka() {
	rs := w.rs()
	if rs.Height != w.h || w.failed {
		return
	}
	r0 := rs.Round
	p := w.proposerAt(r0)
	var B *blk
	if p == w.V {
		w.drain()
		w.learnOwn()
		if len(w.blocks) > 0 {
			B = w.blocks[len(w.blocks)-1]
		}
	} else if p >= 0 {
		if B = w.newBlock(p); B != nil {
			w.propose(r0, B, true, false)
		}
	}
	if B == nil {
		return
	}
	w.log("scenario relock: B=%.8s", B.hex)
	w.fire(pbft.RoundStepPropose)
	w.votesFrom(types.VoteTypePrevote, r0, B, 1.0) // polka B: V locks and precommits B
	w.moveOn(r0)
	// r0+1: C proposed; V (locked) prevotes B; only some prevotes for C reach V before the timeout
	r1 := r0 + 1
	var C *blk
	if p1 := w.proposerAt(r1); p1 >= 0 && p1 != w.V {
		if C = w.newBlock(p1); C != nil {
			w.propose(r1, C, true, false)
		}
	}
	w.fire(pbft.RoundStepPropose)
	order := w.puppetsInOrder()
	var late []int
	if C != nil {
		for _, j := range order {
			// stop before C reaches +2/3 at V, but make sure +2/3-any is reached
			if (w.power(types.VoteTypePrevote, r1, C.hex)+w.powers[j])*3 > w.total*2 {
				late = append(late, j)
				continue
			}
			w.vote(j, types.VoteTypePrevote, r1, C, "valid")
		}
	}
	w.fire(pbft.RoundStepPrevoteWait)
	w.moveOn(r1)
	// r0+2: B again, full polka -> V precommits B again
	r2 := r0 + 2
	if p2 := w.proposerAt(r2); p2 >= 0 && p2 != w.V {
		w.propose(r2, B, true, false)
	}
	w.fire(pbft.RoundStepPropose)
	w.votesFrom(types.VoteTypePrevote, r2, B, 1.0)
	// the late prevotes of r0+1 for C arrive now: a polka of an EARLIER round than V's last precommit
	if C != nil {
		for _, j := range late {
			w.vote(j, types.VoteTypePrevote, r1, C, "valid")
		}
		w.stats["scenario_relock_late_polka"]++
	}
	w.moveOn(r2)
	// r0+3: a fresh block is proposed; V must still prevote B
	r3 := r0 + 3
	if p3 := w.proposerAt(r3); p3 >= 0 && p3 != w.V {
		if D := w.newBlock(p3); D != nil {
			w.propose(r3, D, true, false)
		}
	}
	w.fire(pbft.RoundStepPropose)
}

// scenarioStalePolka: round r0 ends without a polka at V (part of the prevotes for A is held back),
// V locks B in r0+1 and moves on to r0+2; only then the held-back r0 prevotes arrive and complete a
// polka for A in a round EARLIER than V's lock. That must not release the lock: V still prevotes B
// (or proposes B) in r0+2 although a fresh block is proposed.
func (w *world) scenarioStalePolka() {
	rs := w.rs()
	if rs.Height != w.h || w.failed {
		return
	}
	r0 := rs.Round
	own := func() *blk {
		w.drain()
		w.learnOwn()
		if len(w.blocks) > 0 {
			return w.blocks[len(w.blocks)-1]
		}
		return nil
	}
	var A *blk
	if p := w.proposerAt(r0); p == w.V {
		A = own()
	} else if p >= 0 {
		if A = w.newBlock(p); A != nil {
			w.propose(r0, A, true, false)
		}
	}
	if A == nil {
		return
	}
	w.fire(pbft.RoundStepPropose)
	var late []int
	for _, j := range w.puppetsInOrder() {
		if (w.power(types.VoteTypePrevote, r0, A.hex)+w.powers[j])*3 > w.total*2 {
			late = append(late, j) // would complete the polka: arrives two rounds later
			continue
		}
		w.vote(j, types.VoteTypePrevote, r0, A, "valid")
	}
	if len(late) == 0 {
		return
	}
	// +2/3 of anything is needed to leave the prevote step: one of the late ones votes nil first? no -
	// a validator votes once; let the round end through the precommits instead
	w.fire(pbft.RoundStepPrevoteWait)
	w.moveOn(r0)
	if r := w.rs(); r.Height != w.h || r.Round != r0+1 || r.LockedBlock != nil {
		return
	}
	// r0+1: B gets a full polka, V locks it
	r1 := r0 + 1
	var B *blk
	if p1 := w.proposerAt(r1); p1 == w.V {
		B = own()
	} else if p1 >= 0 {
		if B = w.newBlock(p1); B != nil {
			w.propose(r1, B, true, false)
		}
	}
	if B == nil || B.hex == A.hex {
		return
	}
	w.fire(pbft.RoundStepPropose)
	w.votesFrom(types.VoteTypePrevote, r1, B, 1.0)
	if r := w.rs(); r.LockedBlock == nil || r.LockedRound != r1 {
		return
	}
	w.moveOn(r1)
	if r := w.rs(); r.Height != w.h || r.Round != r1+1 {
		return
	}
	// r0+2: the stragglers of r0 arrive: polka for A in r0 < lock round
	for _, j := range late {
		w.vote(j, types.VoteTypePrevote, r0, A, "valid")
	}
	w.stats["scenario_stale_polka"]++
	r2 := r1 + 1
	if p2 := w.proposerAt(r2); p2 >= 0 && p2 != w.V {
		if C := w.newBlock(p2); C != nil {
			w.propose(r2, C, true, false)
		}
	}
	w.fire(pbft.RoundStepPropose)
}

// newBadBlock: a well-formed, correctly signed and complete proposal whose content fails
// ValidateBlock (wrong AppHash).
func (w *world) newBadBlock(proposer int) *blk {
	rs := w.rs()
	st := w.vnode.CS.VerifState()
	var commit *types.Commit
	if rs.Height == 1 {
		commit = &types.Commit{}
	} else if rs.LastCommit != nil && rs.LastCommit.HasTwoThirdsMajority() {
		commit = rs.LastCommit.MakeCommit()
	} else {
		return nil
	}
	b, ps := types.MakeBlock(rs.Height, st.ChainID, []types.Tx{types.Tx(fmt.Sprintf("c04-bad-%d-%d", w.c, w.rng.Intn(1<<30)))}, nil, commit, w.net.Nodes[proposer].Addr,
		st.LastBlockID, st.Validators.Hash(), []byte("not-the-app-hash-of-this-chain"), st.ReceiptsHash, w.net.Cfg.PartSize)
	return &blk{id: types.BlockID{Hash: b.Hash(), PartsHeader: ps.Header()}, parts: ps, hex: fmt.Sprintf("%X", b.Hash())}
}

// scenarioInvalidProposalWhileLocked: V locks B in r0; in r0+1 a complete, correctly signed but
// invalid block is proposed. V is locked: it must prevote B, whatever the proposal is.
func (w *world) scenarioInvalidProposalWhileLocked() {
	rs := w.rs()
	if rs.Height != w.h || w.failed {
		return
	}
	r0 := rs.Round
	var B *blk
	if p := w.proposerAt(r0); p == w.V {
		w.drain()
		w.learnOwn()
		if len(w.blocks) > 0 {
			B = w.blocks[len(w.blocks)-1]
		}
	} else if p >= 0 {
		if B = w.newBlock(p); B != nil {
			w.propose(r0, B, true, false)
		}
	}
	if B == nil {
		return
	}
	w.fire(pbft.RoundStepPropose)
	w.votesFrom(types.VoteTypePrevote, r0, B, 1.0)
	if r := w.rs(); r.LockedBlock == nil {
		return
	}
	w.moveOn(r0)
	r1 := r0 + 1
	if r := w.rs(); r.Height != w.h || r.Round != r1 {
		return
	}
	p1 := w.proposerAt(r1)
	if p1 < 0 || p1 == w.V {
		return
	}
	X := w.newBadBlock(p1)
	if X == nil {
		return
	}
	w.log("scenario invalid proposal while locked: B=%.8s X=%.8s", B.hex, X.hex)
	w.propose(r1, X, true, false)
	w.fire(pbft.RoundStepPropose)
	w.stats["scenario_invalid_proposal_while_locked"]++
}

func (w *world) anyBlock() *blk {
	if len(w.blocks) == 0 || w.rng.Float64() < 0.15 {
		return nil
	}
	return w.blocks[w.rng.Intn(len(w.blocks))]
}

func (w *world) step() {
	rs := w.rs()
	if rs.Height != w.h {
		w.checkCommit()
		return
	}
	w.learnOwn()
	r := rs.Round
	switch x := w.rng.Float64(); {
	case x < 0.10: // start / time out whatever is pending
		steps := []pbft.RoundStepType{pbft.RoundStepNewHeight, pbft.RoundStepPropose, pbft.RoundStepPrevoteWait, pbft.RoundStepPrecommitWait}
		w.fire(steps[w.rng.Intn(len(steps))])
	case x < 0.30: // a proposal for this or the next round
		rr := r + int64(w.rng.Intn(2))
		var b *blk
		if len(w.blocks) > 0 && w.rng.Float64() < 0.5 {
			b = w.blocks[w.rng.Intn(len(w.blocks))]
		} else if p := w.proposerAt(rr); p >= 0 && p != w.V {
			b = w.newBlock(p)
		}
		if b != nil {
			w.propose(rr, b, w.rng.Float64() < 0.85, w.rng.Float64() < 0.05)
		}
	case x < 0.40: // parts of a known block
		if b := w.anyBlock(); b != nil {
			w.sendParts(r, b)
		}
	case x < 0.62: // a wave of prevotes
		rr := r + int64(w.rng.Intn(3)) - int64(w.rng.Intn(2))
		if rr < 0 {
			rr = 0
		}
		w.votesFrom(types.VoteTypePrevote, rr, w.anyBlock(), []float64{0.3, 0.7, 1}[w.rng.Intn(3)])
	case x < 0.80: // a wave of precommits
		rr := r + int64(w.rng.Intn(3)) - int64(w.rng.Intn(2))
		if rr < 0 {
			rr = 0
		}
		b := w.anyBlock()
		if w.rng.Float64() < 0.5 {
			b = nil // nil precommits move rounds on without committing
		}
		w.votesFrom(types.VoteTypePrecommit, rr, b, []float64{0.3, 0.7, 1}[w.rng.Intn(3)])
	case x < 0.90: // single hostile / odd votes
		o := w.others()
		j := o[w.rng.Intn(len(o))]
		mode := []string{"forged", "wrongindex", "unknownblock", "valid"}[w.rng.Intn(4)]
		typ := []byte{types.VoteTypePrevote, types.VoteTypePrecommit}[w.rng.Intn(2)]
		w.vote(j, typ, r+int64(w.rng.Intn(3)), w.anyBlock(), mode)
	case x < 0.95: // a peer claims a majority (makes conflicting votes count)
		if b := w.anyBlock(); b != nil {
			typ := []byte{types.VoteTypePrevote, types.VoteTypePrecommit}[w.rng.Intn(2)]
			rs.Votes.SetPeerMaj23(r, typ, fmt.Sprintf("peer%d", w.rng.Intn(w.n)), b.id)
			w.log("maj23 claim t%d r%d %.8s", typ, r, b.hex)
			w.stats["maj23_claims"]++
		}
	default: // conflicting votes by one puppet
		o := w.others()
		j := o[w.rng.Intn(len(o))]
		typ := []byte{types.VoteTypePrevote, types.VoteTypePrecommit}[w.rng.Intn(2)]
		w.vote(j, typ, r, w.anyBlock(), "valid")
		w.vote(j, typ, r, w.anyBlock(), "valid")
	}
}

func runCase(run *lib.Run, c int64, base string) {
	rng := lib.Rand("c04", c)
	ns := []int{4, 4, 5, 7}
	n := ns[rng.Intn(len(ns))]
	powers := make([]int64, n)
	for i := range powers {
		switch c % 3 {
		case 0:
			powers[i] = 1
		case 1:
			powers[i] = int64(1 + rng.Intn(5))
		default:
			powers[i] = int64(10 + rng.Intn(3))
		}
	}
	V := rng.Intn(n)
	real := make([]bool, n)
	real[V] = true
	var byz []int
	for i := 0; i < n; i++ {
		if i != V {
			byz = append(byz, i)
		}
	}
	dir := filepath.Join(base, fmt.Sprintf("c%d", c))
	os.MkdirAll(dir, 0755)
	defer lib.RemoveLater(dir)
	run.Eval()
	net, err := sim.NewNet(sim.Config{Powers: powers, Real: real, Dir: dir, Label: "c04"})
	if err != nil {
		run.Inconclusive(fmt.Sprintf("case %d: %v", c, err))
		return
	}
	var w *world
	defer func() {
		if r := recover(); r != nil {
			run.Count("runs_aborted_by_panic", 1)
			run.Distinct("panic_sites", fmt.Sprint(r))
			if w != nil {
				lib.WriteObservation(prop, fmt.Sprintf("panic-case%d", c), map[string]interface{}{"panic": fmt.Sprint(r), "stack": string(debug.Stack()), "case": c, "powers": powers, "V": V, "actions": w.actions})
			}
		}
		func() { defer func() { recover() }(); net.Close() }()
	}()
	w = &world{run: run, c: c, rng: rng, net: net, V: V, vnode: net.Nodes[V], n: n, powers: powers, stats: map[string]int{}}
	for _, p := range powers {
		w.total += p
	}
	w.adv = sim.NewAdversary(net, rng, byz)
	w.resetHeight(1)
	w.fire(pbft.RoundStepNewHeight)
	if c%6 == 0 {
		w.scenarioRelockThenLatePolka()
	}
	if c%6 == 3 {
		w.scenarioStalePolka()
	}
	if c%6 == 5 {
		w.scenarioInvalidProposalWhileLocked()
	}
	steps := lib.Pick(120, 200)
	for s := 0; s < steps && !w.failed; s++ {
		w.step()
	}
	for k, v := range w.stats {
		run.Count(k, int64(v))
	}
	rs := w.rs()
	run.Distinct("max_round_reached", strconv.FormatInt(rs.Round, 10))
	run.Distinct("schedules", lib.Hash12(w.actions))
	if w.stats["v_precommits_block"] > 0 {
		run.Nontrivial(lib.Hash12(w.actions))
		run.Count("runs_with_lock", 1)
	}
	if c < 2 {
		a := w.actions
		if len(a) > 30 {
			a = a[:30]
		}
		run.Sample(map[string]interface{}{"case": c, "powers": powers, "V": V, "first_actions": a})
	}
}

func worker(args []string) {
	i, _ := strconv.Atoi(args[0])
	wn, _ := strconv.Atoi(args[1])
	out := args[2]
	run := lib.NewChildRun(prop)
	base := lib.Scratch(prop)
	defer os.RemoveAll(base)
	total := int64(lib.Pick(1600, 60000))
	for c := int64(i); c < total; c += int64(wn) {
		runCase(run, c, base)
	}
	run.MarkComplete()
	if err := run.ExportTo(out); err != nil {
		fmt.Println("export failed:", err)
		os.Exit(1)
	}
}

func main() {
	if len(os.Args) > 1 && os.Args[1] == "worker" {
		worker(os.Args[2:])
		return
	}
	run := lib.NewRun(prop, "exploration")
	run.SetRule("seeded cases: one real ConsensusState among N in {4,5,7} validators (equal / small random / near-equal powers); the harness signs for all others and delivers, per case, 120-200 randomly chosen actions (proposals for current/next round incl. re-proposals with POL and forged ones, block parts, waves of prevotes/precommits for known blocks / nil in rounds r-1..r+2, forged / mis-indexed / unknown-block votes, conflicting votes, peer majority claims, timeouts). Non-trivial = distinct action trace in which V precommitted a block (took a lock).")
	run.Assume("a vote counts as received when it was delivered to V with a valid signature of that validator for this height and round (conflicting votes of one validator both count, which only makes the oracle more permissive)", "single height at a time; crashes are C07's")
	run.RunWorkers(16, time.Duration(lib.Pick(20, 60))*time.Minute, nil, nil)
	run.Require("v_precommits_block", 200)
	run.Require("prevotes_while_locked_rule_applies", 100)
	run.Require("prevote_other_after_unlock_polka", 5)
	run.Require("v_commits", 50)
	run.Require("scenario_stale_polka", 50)
	run.Require("scenario_invalid_proposal_while_locked", 50)
	run.Require("scenario_relock_late_polka", 50)
	os.Exit(run.Finish())
}
