// Package vnode is engine E3: the real node (chain/core.NewNode: Angine + EVM
// application + p2p + stores) as used by `genesis init` / `genesis run`, on a
// runtime directory, single validator on 127.0.0.1. Used inside child
// processes so that it can be killed for real.
package vnode

import (
	"fmt"
	"os"
	"path/filepath"

	"github.com/spf13/viper"

	"github.com/dappledger/AnnChain/chain/app/evm"
	"github.com/dappledger/AnnChain/chain/core"
	"github.com/dappledger/AnnChain/gemmill"
	bc "github.com/dappledger/AnnChain/gemmill/blockchain"
	"github.com/dappledger/AnnChain/gemmill/config"
	dbm "github.com/dappledger/AnnChain/gemmill/modules/go-db"
	sm "github.com/dappledger/AnnChain/gemmill/state"
)

func tune(c *viper.Viper, port int) {
	c.Set("app_name", "evm")
	c.Set("p2p_laddr", fmt.Sprintf("tcp://127.0.0.1:%d", port))
	c.Set("rpc_laddr", "")
	c.Set("seeds", "")
	c.Set("skip_upnp", true)
	c.Set("pex_reactor", false)
	c.Set("auth_by_ca", false)
	c.Set("fast_sync", false)
	c.Set("timeout_propose", 400)
	c.Set("timeout_propose_delta", 50)
	c.Set("timeout_prevote", 100)
	c.Set("timeout_prevote_delta", 50)
	c.Set("timeout_precommit", 100)
	c.Set("timeout_precommit_delta", 50)
	c.Set("timeout_commit", 120)
	c.Set("environment", "production")
}

// Init creates a runtime directory (config, genesis with this node as the only
// validator, signer file) exactly as `genesis init` does.
func Init(dir, chainID string, port int) {
	c := core.DefaultConf()
	tune(c, port)
	c.Set("log_path", filepath.Join(dir, "node.log"))
	gemmill.Initialize(&gemmill.Tunes{Runtime: dir, Conf: c}, chainID)
}

// Conf reads the runtime configuration with the harness overrides applied.
func Conf(dir string, port int) (*viper.Viper, error) {
	c, err := config.ReadConfig(dir)
	if err != nil {
		return nil, err
	}
	tune(c, port)
	c.Set("log_path", filepath.Join(dir, "node.log"))
	return c, nil
}

// New builds the node (this runs crash recovery: RecoverFromCrash, WAL replay on Start).
func New(dir string, port int) (*core.Node, *viper.Viper, error) {
	c, err := Conf(dir, port)
	if err != nil {
		return nil, nil, err
	}
	n, err := core.NewNode(c, dir, "evm")
	return n, c, err
}

// Stores opens the node's block store and state read-only style (the node
// process must be gone). The caller closes the DBs.
type Stores struct {
	BlockDB, StateDB dbm.DB
	Store            *bc.BlockStore
	State            *sm.State
}

func OpenStores(dir string, port int) (*Stores, error) {
	c, err := Conf(dir, port)
	if err != nil {
		return nil, err
	}
	backend, dbDir := c.GetString("db_backend"), c.GetString("db_dir")
	if _, err := os.Stat(dbDir); err != nil {
		return nil, err
	}
	s := &Stores{}
	s.BlockDB = dbm.NewDB("blockstore", backend, dbDir)
	s.StateDB = dbm.NewDB("state", backend, dbDir)
	s.Store = bc.NewBlockStore(s.BlockDB, nil)
	s.State = sm.LoadState(s.StateDB)
	return s, nil
}

func (s *Stores) Close() {
	s.BlockDB.Close()
	s.StateDB.Close()
}

// OpenApp opens the EVM application of a runtime directory without the engine.
func OpenApp(dir string, port int) (*evm.EVMApp, error) {
	c, err := Conf(dir, port)
	if err != nil {
		return nil, err
	}
	a, err := evm.NewEVMApp(c)
	if err != nil {
		return nil, err
	}
	if err := a.Start(); err != nil {
		return nil, err
	}
	return a, nil
}
