#!/bin/bash
# usage: scripts/seedboth.sh <seed-worktree> <Cnn> <name> [more Cnn...]  -- seedverify, then seedrun (quick) against each named check
src="$1"; id="$2"; name="$3"; shift 3
cd /verif
scripts/seedverify.sh "$src" "$id" "$name" > "bin/seedverify-$name.log" 2>&1
for c in "$id" "$@"; do
  scripts/seedrun.sh "seeded/$name/patch.diff" "$c" quick > "bin/seedrun-$name-$c.log" 2>&1
  echo "$name $c rc=$? violations=$(grep -c '^VIOLATION' bin/seedrun-$name-$c.log) classes=$(grep '^  class=' bin/seedrun-$name-$c.log | sed 's/^  class=//; s/: .*//' | awk '{print $1}' | sort | uniq -c | sort -rn | head -3 | tr '\n' ';')" >> bin/seedboth.summary
done
tail -1 "bin/seedverify-$name.log" >> bin/seedboth.summary
