#!/bin/bash
# Run once after a fresh restore, offline: warm the Go build cache for every check.
export GOFLAGS=-mod=mod GOPROXY=off GOSUMDB=off GOTOOLCHAIN=local
cd /verif || exit 1
[ -f go.sum ] || cp /repo/go.sum go.sum
mkdir -p bin evidence replays
rc=0
for lc in $(python3 -c "import json;print(' '.join(c['property_id'].lower() for c in json.load(open('scripts/checks.json'))['checks']))"); do
  d="checks/$lc/"
  ld=""; [ -f "$d/ldflags" ] && ld="$(cat "$d/ldflags")"
  if [ -n "$ld" ]; then go build -tags verif -ldflags "$ld" -o "bin/$lc" "./$d" || rc=1
  else go build -tags verif -o "bin/$lc" "./$d" || rc=1; fi
  if [ -f "$d/race" ]; then
    if [ -n "$ld" ]; then go build -race -gcflags=golang.org/x/crypto/sha3=-d=checkptr=0 -tags verif -ldflags "$ld" -o "bin/$lc.race" "./$d" || rc=1
    else go build -race -gcflags=golang.org/x/crypto/sha3=-d=checkptr=0 -tags verif -o "bin/$lc.race" "./$d" || rc=1; fi
  fi
done
exit $rc
