#!/bin/bash
# usage: scripts/seedrun.sh <patch.diff> <Cnn> [quick|thorough]
# Applies a seeded change to a scratch worktree of /repo's HEAD and runs one check against it
# (VERIF_REPO); never touches /repo's working tree. Removes the worktree afterwards.
set -u
patch=$(readlink -f "$1"); id="$2"; tier="${3:-quick}"
wt=/tmp/seedrun-$$-$(basename "$(dirname "$patch")")
git -C /repo worktree add --detach "$wt" HEAD -f >/dev/null 2>&1 || { echo "cannot create worktree"; exit 3; }
if ! git -C "$wt" apply "$patch"; then echo "PATCH-DOES-NOT-APPLY"; git -C /repo worktree remove --force "$wt"; exit 3; fi
cd /verif && VERIF_REPO="$wt" ./check "$id" "$tier"
rc=$?
h=$(echo "$wt" | md5sum | cut -c1-8)
rm -rf "/verif/bin/alt-$h" /verif/bin/*."$h" /verif/bin/*."$h".*
git -C /repo worktree remove --force "$wt"
exit $rc
