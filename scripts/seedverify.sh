#!/bin/bash
# usage: scripts/seedverify.sh <seed-worktree> <id> <name>
# Confirms a seeded change independently on a scratch worktree of /repo's current HEAD:
# patch applies, builds, the demonstration fails with it and passes without it, the
# repository's own tests of all packages pass with it. Then stores it under /verif/seeded/<name>/.
set -u
export GOFLAGS=-mod=mod GOPROXY=off GOSUMDB=off GOTOOLCHAIN=local
src="$1"; id="$2"; name="$3"
wt=/tmp/seedverify-$$
out=/verif/seeded/$name; mkdir -p "$out"
git -C /repo worktree add --detach "$wt" HEAD -f >/dev/null 2>&1 || exit 3
trap 'git -C /repo worktree remove --force "$wt" >/dev/null 2>&1' EXIT
cp "$src/SEED/patch.diff" "$out/patch.diff"
# demonstration files = untracked *_test.go files of the seed worktree
demos=$(cd "$src" && git status --short | awk '$1=="??"{print $2}' | grep '_test.go$')
mkdir -p "$out/demo"
pkgs=""
for f in $demos; do mkdir -p "$out/demo/$(dirname $f)"; cp "$src/$f" "$out/demo/$f"; cp "$src/$f" "$wt/$f"; pkgs="$pkgs ./$(dirname $f)/"; done
pkgs=$(echo $pkgs | tr ' ' '\n' | sort -u | tr '\n' ' ')
cd "$wt"
echo "--- demonstration WITHOUT the change (must pass)"
go test -count=1 -vet=off $pkgs > "$out/demo_without.log" 2>&1; rc_without=$?
tail -3 "$out/demo_without.log"
git apply "$out/patch.diff" || { echo PATCH-DOES-NOT-APPLY; exit 3; }
echo "--- build with the change"
go build ./... > "$out/build.log" 2>&1; rc_build=$?
echo "--- demonstration WITH the change (must fail)"
go test -count=1 -vet=off $pkgs > "$out/demo_with.log" 2>&1; rc_with=$?
grep -E "^(--- FAIL|FAIL|ok)" "$out/demo_with.log" | head -5
echo "--- repository test suite with the change (demonstration removed)"
for f in $demos; do rm -f "$wt/$f"; done
go test -mod=mod -vet=off -count=1 ./... > "$out/suite_with.log" 2>&1
fails=$(grep -E "^FAIL\s" "$out/suite_with.log" | grep -v "flowrate\|eth/crypto/ecies\|eth/event\|p2p/upnp" | head -5)
echo "build=$rc_build demo_without=$rc_without demo_with=$rc_with suite_failures_outside_known_flaky=[${fails}]"
cp "$src/SEED/README.md" "$out/README.md" 2>/dev/null
echo "{\"verified\": {\"build_rc\": $rc_build, \"demo_without_rc\": $rc_without, \"demo_with_rc\": $rc_with, \"suite_failures\": \"$(echo $fails | tr '"' "'")\"}}" > "$out/verify.json"
