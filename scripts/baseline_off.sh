#!/bin/bash
# Runs the repository's pinned test suite with the verif build tag OFF.
export GOFLAGS=-mod=mod GOPROXY=off GOSUMDB=off GOTOOLCHAIN=local
cd /repo && exec go test -mod=mod -json -vet=off -count=1 -timeout 25m ./...
