#!/usr/bin/env python3
"""writes meta.json for the sixth-round seeded changes"""
import json, os
T = {
 "c01f-vote-filed-under-claimed-index-signer-by-address": ("C01", "a Byzantine validator sends votes signed with its own key and address under other validators' indices and withholds the copy under its own index; equivocating proposal with split delivery", {"C15": "hvs-addvote-result-invalid-address, canonical-vote-not-a-valid-offered-vote, ... (21)", "C01": "first version: missed (silently: the relabelled votes of the new Byzantine behaviour make the seeded code panic, and C01 only counted aborted cases); now INCONCLUSIVE (cases aborted by a panic of the code under test are never a silent pass); no fork staged", "C08": "see DESIGN 6.4"}),
 "c02f-quorum-helper-off-by-one-at-multiples-of-three": ("C02", "total voting power divisible by 3 and a polka or commit formed by exactly 2/3 of it", {"C02": "seen-commit-invalid (3)", "C15": "violations (33)", "C01": "missed"}),
 "c03d-watermark-reset-before-new-height-request-completes": ("C03", "a failed durable write (or a refused request) exactly while the first message of a new height is being signed, then a conflicting request for the already-signed height in the same process", {"C03": "two-signatures-for-one-hrs:after-failed-write, signed-for-earlier-hrs:after-failed-write (6)"}),
 "c05f-recycled-verifier-queue-keeps-stale-error": ("C05", "an invalid transaction at index k of a block, a later block with a valid transaction at index k, and replicas whose process lifetimes differ around the first block", {"C05": "valid-invalid-split-differs-across:restart / :race-build (5)", "C09": "validity-of-others-depends-on-an-invalid-tx:valid-list (3)"}),
 "c08e-message-queued-before-bookkeeping-dereference": ("C08", "a vote message with nil Vote (bytes 14 00) or a block part message with nil Part for the current height while a part set is open", {"C08": "consensus-goroutine-panic:gemmill/types.(*PartSet).AddPart, ...pbft.(*ConsensusState).addVote (6)"}),
 "c13e-power-update-patched-in-place-stale-total": ("C13", "an update_node operation that raises a validator's power (cached total goes stale), then a served block whose commit carries more than 2/3 of the old total but not of the real one", {"C13": "crash-resume:restart-fails:blockchain.poolRoutine (3)", "C14": "valid-request-refused:* (23)", "C16": "missed"}),
 "c14e-same-block-changes-applied-in-map-order": ("C14", "two accepted requests for the same validator with different commands (update and remove) in one block, and a map iteration order that differs between replicas", {"C14": "replica-diverges:restarted-between-blocks, replica-diverges:late-catch-up, accepted-change-yields-wrong-set:update_node+remove_node (7)"}),
 "c16e-next-set-rotated-by-local-commit-round": ("C16", "a block decided in round >= 1 and a replica that gets it by fast sync / crash replay, or whose own round is above the commit round when it finalizes", {"C16": "missed (works on ValidatorSet and State persistence, not on State.ExecBlock's round argument)", "C12": "no-progress-in-fair-suffix (3)", "C07": "missed"}),
}
for name, (prop, needs, caught) in T.items():
    d = '/verif/seeded/' + name
    if not os.path.isdir(d):
        print('missing', name); continue
    v = json.load(open(d + '/verify.json'))['verified']
    meta = {
        "breaks_property": prop, "needs": needs, "caught_by": caught,
        "source": "independent sub-agent (sixth round; given the property text, a scratch worktree and the names of the mechanisms earlier seeded changes for this property used)",
        "ran": ["scripts/seedverify.sh", "scripts/seedrun.sh patch.diff <Cnn> quick (scripts/seedboth.sh)"],
        "confirmed": {"applies_to_repo_head": True, "go_build_rc": v.get('build_rc'), "demonstration_without_change_rc": v.get('demo_without_rc'), "demonstration_with_change_rc": v.get('demo_with_rc'), "repo_suite_failures_outside_known_flaky_packages": v.get('suite_failures', '')},
    }
    json.dump(meta, open(d + '/meta.json', 'w'), indent=1)
print('done')
