#!/usr/bin/env python3
"""writes meta.json for the fifth-round seeded changes from verify.json + this table"""
import json, os
T = {
 "c01e-update-adjusts-uncomputed-total-quorum": ("C01", "one block that removes/adds a validator and then changes another's power (cached total becomes the difference), then a Byzantine validator below 1/3 equivocating at a later height", {"C01": "first version: missed; after the validator-set-history + equivocation case: fork (3)"}),
 "c02e-resent-conflicting-vote-tallied-again": ("C02", "a Byzantine validator's first vote for something else, a peer's majority claim for B, then the same signed vote for B re-delivered until quorum (same mechanism as c04d, written independently)", {"C02": "first version: missed; after re-delivery of the conflicting precommit in the equivocal-commit template: seen-commit-invalid (3)", "C15": "violations (15)"}),
 "c05e-truncated-push1-pushes-shared-zero-constant": ("C05", "an execution that reaches a PUSH1 as the very last byte of the code (the VM's package-level zero constant ends up in the integer pool), later in the same process ADDMOD/MULMOD/STATICCALL, and a replica that executes that later block in a fresh process", {"C05": "first version: missed; after fuzz contracts (random code, truncated pushes) and the arithmetic probe contract: apphash-differs-across:restart (2)", "C10": "violations (67)", "C09": "missed"}),
 "c06e-no-vote-signing-during-replay": ("C06", "a crash at a durable write between the WAL line that triggers a vote and the WAL line of that vote, the validator's own vote being needed for +2/3", {"C06": "no-progress-after-restart:<site> (12)", "C07": "missed"}),
 "c07e-replay-adds-logged-parts-without-proof-check": ("C07", "a block part the live node rejected by proof logged before the good part of the same index, then lock, crash, restart and a further round with another block", {"C07": "replay-digest-differs (3)", "C01": "missed"}),
 "c12e-commit-of-left-round-discarded": ("C12", "the precommit that completes +2/3 for a block of round R arrives after the node left round R on the precommit-wait timeout", {"C12": "no-progress-in-fair-suffix (3)"}),
 "c13d-fastsync-executes-block-popped-not-block-verified": ("C13", "the peer that delivered block h is removed while poolRoutine verifies it and another peer's pushed forged block h lands in the re-assigned requester before PopRequest", {"C13": "first version: missed; see DESIGN 6.4 for the swap scenario on hook 96fcdc6"}),
 "c16d-copy-shares-zero-power-entries": ("C16", "a zero-power member that can win the selection in a round > 0 on replicas that differ in the rounds they entered", {"C16": "first version: missed; after zero-power members in the operation sequences: original-affected-by-copy (1-3 per seed)", "C14": "missed", "C02": "missed"}),
 "c19e-executable-tx-bypasses-waiting-limit": ("C19", "pending at its limit and waiting at its limit at the same time, then transactions at their senders' current nonce", {"C19": "bound:waiting>waitingLimit (3)"}),
 "c20e-nonce-steps-by-one-reflection": ("C20", "an active man in the middle that sends one of a node's own sealed frames back to it at the matching inbound position", {"C20": "first version: inconclusive only (the harness' own protocol implementation no longer interoperated); after the reflect tamper kind: tamper-reflect-wrong-byte-delivered (3)"}),
}
for name, (prop, needs, caught) in T.items():
    d = '/verif/seeded/' + name
    if not os.path.isdir(d):
        print('missing', name); continue
    v = json.load(open(d + '/verify.json'))['verified']
    meta = {
        "breaks_property": prop, "needs": needs, "caught_by": caught,
        "source": "independent sub-agent (fifth round; given the property text, a scratch worktree and the names of the mechanisms earlier seeded changes for this property used)",
        "ran": ["scripts/seedverify.sh", "scripts/seedrun.sh patch.diff <Cnn> quick (scripts/seedboth.sh)"],
        "confirmed": {"applies_to_repo_head": True, "go_build_rc": v.get('build_rc'), "demonstration_without_change_rc": v.get('demo_without_rc'), "demonstration_with_change_rc": v.get('demo_with_rc'), "repo_suite_failures_outside_known_flaky_packages": v.get('suite_failures', '')},
    }
    json.dump(meta, open(d + '/meta.json', 'w'), indent=1)
print('done')
