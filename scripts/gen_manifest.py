#!/usr/bin/env python3
# Generates /verif/MANIFEST.json from scripts/checks.json (one record per claimed property).
import json, os
root='/verif'
checks=json.load(open(os.path.join(root,'scripts','checks.json')))
props=[json.loads(l)['id'] for l in open(os.path.join(root,'properties.jsonl'))]
claimed={c['property_id'] for c in checks['checks']}
man={
 "version":1,
 "setup_cmd":"./scripts/setup.sh",
 "hooks":{
  "guard":"verif",
  "enable":"go build -tags verif (every check is built by ./check with -tags verif against /repo through a replace directive)",
  "baseline_off_cmd":"./scripts/baseline_off.sh",
  "source_commits":checks["hook_commits"],
  "add_only":True
 },
 "engines":checks.get("engines",[]),
 "checks":[],
 "notes":checks.get("notes",""),
 "not_applicable":[]
}
for c in checks['checks']:
    pid=c['property_id']
    man['checks'].append({
      "property_id":pid,
      "quick_cmd":"./check %s quick"%pid,
      "thorough_cmd":"./check %s thorough"%pid,
      "evidence_file":"/verif/evidence/%s.json"%pid,
      "replay_cmd_template":"cat {path}",
      "engine":c.get("engine",""),
      "level_claimed":{"category":c["category"],"text":c["text"],"design_ref":c.get("design_ref","DESIGN.md §3 "+pid)},
      "level_note":c["note"],
      "technique":c["technique"],
    })
na=checks.get("not_applicable",{})
for p in props:
    if p not in claimed:
        man['not_applicable'].append({"property_id":p,"reason":na.get(p,"not claimed yet: the runtime monitor for this property is still under construction (see DESIGN.md §3 %s for the plan)"%p)})
json.dump(man,open(os.path.join(root,'MANIFEST.json'),'w'),indent=1)
print("claimed",sorted(claimed))
