#!/usr/bin/env python3
"""usage: seedprompt.py <Cnn> <worktree> -> prints the prompt for an independent sub-agent.
The prompt contains only the property's text and the names of the mechanisms earlier seeded
changes used (so that the new one is different); nothing else from /verif."""
import json, sys, os
pid, wt = sys.argv[1], sys.argv[2]
prop = None
for l in open('/verif/properties.jsonl'):
    d = json.loads(l)
    if d['id'] == pid: prop = d
earlier = sorted(n for n in os.listdir('/verif/seeded') if n.lower().startswith(pid.lower()))
earlier = [n.split('-', 1)[1].replace('-', ' ') for n in earlier]
a = prop['anchors']
print(f"""You are helping test a verification effort by playing the part of a developer who introduces a subtle regression.

Repository: dappledger/AnnChain, a consortium blockchain node in Go (Tendermint-derived PBFT consensus under gemmill/, an in-tree copy of go-ethereum's EVM/trie/RLP under eth/, the EVM application under chain/app/evm). Your own scratch git worktree of it is at {wt} (work ONLY there; never touch /repo or /verif, and do not read anything under /verif).

Shell environment for EVERY command (there is no network): 
  export GOFLAGS=-mod=mod GOPROXY=off GOSUMDB=off GOTOOLCHAIN=local

The property (this text is all you get about it):

  {prop['id']}: {prop['title']}
  Statement: {prop['statement']}
  Quantified over: {prop['quantifier']['text']}
  Code it is anchored in: {', '.join(a['files'])}
  Mechanisms: {'; '.join(m['name'] + ' (' + m['where'] + ')' for m in a.get('mechanism', []))}

Your job: make ONE realistic change to the non-test source of the repository (the kind of thing a well-meaning refactoring, optimisation or "simplification" could introduce: 3-40 changed lines) that BREAKS this property while
  (1) the repository still compiles (`go build ./...`),
  (2) the repository's existing tests in the packages you touched and their direct dependants still pass (`go test -vet=off -count=1 <pkgs>`; a few packages are flaky regardless: flowrate, eth/crypto/ecies, eth/event, p2p/upnp - ignore those),
  (3) the break needs something SPECIFIC to manifest - a particular interleaving, a crash or fault at a particular point, a multi-step sequence of operations, an unusual input or boundary value, or two cooperating sites that each look fine alone. NOT something ordinary use (a node committing a few ordinary blocks, or one ordinary call) would expose at once.

Earlier rounds already used these mechanisms for this property - yours must be a DIFFERENT mechanism in a different place or code path: {('; '.join(earlier)) if earlier else '(none yet)'}.

Do not only remove a check outright at the most obvious place; prefer a change that looks plausible in review. Do not touch files guarded by the build tag `verif` (verif_shim.go, gemmill/modules/verifhook) and do not change *_test.go files that exist.

Then write a DEMONSTRATION: one new Go test file (new file name ending in _test.go, in the package where it fits; keep it untracked, i.e. do NOT `git add` it) containing a test that FAILS with your change and PASSES without it (verify both. NEVER use `git stash` - the stash is shared with sibling worktrees other people work in; use `git diff > /tmp/NAME.p; git apply -R /tmp/NAME.p; go test -run YourTest ./pkg/; git apply /tmp/NAME.p; go test -run YourTest ./pkg/` with NAME = the basename of your worktree). The demonstration must exercise the real code and show the property itself being violated (two different blocks committed, a forged part accepted, a wrong root ...), not merely that some internal function returns another value.

Deliverables, all inside {wt}:
  * SEED/patch.diff  - `git diff` of your change to tracked files only (without the demonstration test); it must apply to a clean checkout of HEAD with `git apply`.
  * SEED/README.md   - short: what the change is, why it breaks the property, exactly what is needed for it to manifest, how you ran the demonstration with and without it (commands and outcomes), which existing tests you ran.
  * the untracked demonstration *_test.go file(s) left in place in the worktree, and the change itself left applied in the working tree.
(SEED/ is untracked as well; that is fine.)

Keep build output small; do not create other worktrees or copies of the repository. In your final answer give: the one-line name of the mechanism, the files changed, what it needs to manifest, and the demonstration commands with their results.""")
