#!/usr/bin/env python3
"""writes meta.json for the fourth-round seeded changes from verify.json + this table"""
import json, os
T = {
 "c01d-replay-aborts-at-rejected-peer-message": ("C01", "a Byzantine peer's rejected proposal earlier in the height's WAL than the messages that make the node lock; the node locks and precommits, another honest node commits, the node crashes and restarts before it sees +2/3 precommits; a later round with another block", {"C07": "replay-digest-differs (3)", "C01": "first version: missed; after the rejected-message-first amnesia variant with Byzantine echo: fork (2)"}),
 "c02d-validation-memoized-by-header-hash": ("C02", "a Byzantine proposer's well-formed block validated in a round that fails, no other block validated in between, then the same header over another body from the next Byzantine proposer (2 of 7 Byzantine)", {"C02": "first version: missed; after template AttackBadBlockAfterValid: header-numtxs, header-lastcommithash, malformed-block-committed-after-valid-relative (11)", "C01": "missed"}),
 "c03c-save-skip-cache-stale-after-failed-write": ("C03", "a failed signer-file write during a signing request, the identical request repeated in the same process, a crash before any further save, then a conflicting request", {"C03": "two-signatures-for-one-hrs* (3)"}),
 "c04d-resent-conflicting-vote-counted-again": ("C04", "a Byzantine validator whose first vote is for something else, a peer's majority claim for B, and the same signed vote for B delivered repeatedly", {"C04": "violations (5)", "C15": "violations (15)", "C01": "fork (1)"}),
 "c05d-blockhash-headers-cached-in-process": ("C05", "a transaction executing BLOCKHASH of a block other than the parent, on replicas with different process lifetimes", {"C05": "first version: missed; after the block-environment contract: apphash-differs-across:restart (3)"}),
 "c06d-finalize-skips-save-when-meta-exists": ("C06", "process death inside SaveBlock (after the block meta, before the store descriptor) and restart", {"C06": "violations (12)", "C07": "missed (mock application, MemDB-like stores)"}),
 "c07d-group-reader-cannot-read-long-records": ("C07", "a WAL record longer than 40 KB (a block part above ~20 KB) and a crash within that height after votes or a lock were processed", {"C07": "first version: missed; after large single-part and multi-part block cases: replay-digest-differs, intra-step-replay-digest-differs (4)", "C01": "missed"}),
 "c08d-recovered-panic-leaves-votes-mutex-locked": ("C08", "one VoteSetMaj23 / VoteSetBits message for the current height and an existing round with a vote type other than prevote/precommit", {"C08": "first version: inconclusive only (worker watchdogs); after lib.Guarded wedge detection: see DESIGN 6.4"}),
 "c09d-failed-creation-rolls-nonce-back": ("C09", "a contract creation whose constructor fails with a VM error, then the same bytes again or the sender's next transaction", {"C09": "nonce-differs-from-model (3)", "C10": "violations (13)", "C05": "missed"}),
 "c10b-initcode-jumpdest-analysis-shared-under-zero-hash": ("C10", "two different init codes run by plain CREATE in one call tree, the earlier one jumping, the later one jumping to an offset that is code in one and PUSH data in the other", {"C10": "violations (12)"}),
 "c11d-subbalance-in-place-corrupts-carried-balance": ("C11", "CreateAccount over a funded account, SubBalance on it, then a revert covering the creation, all in one journal", {"C11": "violations (17)", "C09": "missed", "C10": "missed"}),
 "c12d-replay-does-not-rearm-pending-timeout": ("C12", "a validator restarted from its WAL while in a step only a timeout can end, in a round that needs that timeout, its vote being required for +2/3", {"C12": "no-progress-in-fair-suffix (3)", "C07": "missed (digest does not contain scheduled timeouts)"}),
 "c13c-fastsync-checks-header-hash-only": ("C13", "a malicious peer serving a block with the committed header and an altered body (Extra, Txs)", {"C13": "violations (22)"}),
 "c14d-request-bound-to-gateway-caller-not-origin": ("C14", "a request made out to a forwarding contract account (nonce never moves) submitted through it, then replayed by anyone", {"C14": "valid-request-refused:* and others (12)"}),
 "c15c-update-adjusts-uncomputed-total": ("C15", "ValidatorSet.Update on a set whose cached total is 0 (after Add/Remove in the same block, or after a reload)", {"C15": "first version: missed; after validator sets with a construction history: maj23-reported-without-two-thirds, verifycommit-accepts-* (40)", "C14": "violations (10)", "C16": "violations (6)", "C02": "missed"}),
 "c16c-caught-up-replica-increments-committed-set": ("C16", "a replica that entered the height through SwitchToConsensus (fast-sync hand-over) and a round change at that very height", {"C16": "missed (works on ValidatorSet, no hand-over)", "C13": "missed", "C12": "first version: missed; after the live hand-over scenario: live-no-progress-within-round-bound"}),
 "c17c-parallel-trails-split-at-half": ("C17", "a part set / Merkle tree in which a subtree with an odd number >= 65 of leaves is split", {"C17": "violations (9)"}),
 "c18c-slice-chunk-buffer-reused": ("C18", "a go-wire slice of more than 1024 elements whose element type holds a pointer or interface", {"C18": "roundtrip/binary/* (many)"}),
 "c19d-cache-claim-outside-pool-lock": ("C19", "the same transaction in flight in ReceiveTx while the block containing it commits", {"C19": "first version: missed; after contested transactions and a yielding filter: conc:mempool:not-linearizable:reoffer-after-commit-returned (6)"}),
 "c20d-eof-packet-lost-for-multiples-of-packet-size": ("C20", "a message whose encoding is an exact non-zero multiple of the 1024-byte packet payload", {"C20": "mconn-messages-merged, mconn-message-extended, mconn-unexpected-message (18)"}),
}
for name, (prop, needs, caught) in T.items():
    d = '/verif/seeded/' + name
    if not os.path.isdir(d):
        print('missing', name); continue
    v = {}
    try: v = json.load(open(d + '/verify.json'))['verified']
    except Exception as e: print('no verify.json', name)
    meta = {
        "breaks_property": prop,
        "needs": needs,
        "caught_by": caught,
        "source": "independent sub-agent (fourth round; given the property text, a scratch worktree and the names of the mechanisms earlier seeded changes for this property used)",
        "ran": ["scripts/seedverify.sh", "scripts/seedrun.sh patch.diff <Cnn> quick (scripts/seedboth.sh)"],
        "confirmed": {"applies_to_repo_head": True, "go_build_rc": v.get('build_rc'), "demonstration_without_change_rc": v.get('demo_without_rc'), "demonstration_with_change_rc": v.get('demo_with_rc'), "repo_suite_failures_outside_known_flaky_packages": v.get('suite_failures', '')},
    }
    if os.path.exists(d + '/meta.json'):
        old = json.load(open(d + '/meta.json'))
        if 'note' in old: meta['confirmed'] = old['confirmed']
    if os.path.exists(d + '/meta.json'):
        old = json.load(open(d + '/meta.json'))
        for k in ('note',):
            if k in old: meta[k] = old[k]
    json.dump(meta, open(d + '/meta.json', 'w'), indent=1)
print('done')
