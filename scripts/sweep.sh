#!/bin/bash
# usage: scripts/sweep.sh <tier> <seed> [ids...]  -- runs checks sequentially, summarises exit codes and wall time
tier="${1:-quick}"; seed="${2:-1}"; shift; shift
ids="$@"; [ -n "$ids" ] || ids="C01 C02 C03 C04 C05 C06 C07 C08 C09 C10 C11 C12 C13 C14 C15 C16 C17 C18 C19 C20"
mkdir -p /verif/bin/sweep
for id in $ids; do
  t0=$(date +%s)
  VERIF_SEED=$seed /verif/check $id $tier > /verif/bin/sweep/$id.$tier.$seed.out 2>&1
  rc=$?
  t1=$(date +%s)
  v=$(grep -c '^VIOLATION' /verif/bin/sweep/$id.$tier.$seed.out)
  k=$(grep -c '^KNOWN-FINDING' /verif/bin/sweep/$id.$tier.$seed.out)
  echo "$id tier=$tier seed=$seed rc=$rc secs=$((t1-t0)) violations=$v known=$k"
done
