// Package evmdrive is engine E4: the real EVM application (chain/app/evm)
// driven block by block without consensus: NewEVMApp + Start + OnExecute +
// OnCommit + Query + tx pool on a scratch data directory.
package evmdrive

import (
	"crypto/ecdsa"
	"crypto/sha256"
	"encoding/binary"
	"fmt"
	"math/big"
	"sync"
	"time"

	"github.com/spf13/viper"
	"go.uber.org/zap"

	"github.com/dappledger/AnnChain/chain/app/evm"
	ctypes "github.com/dappledger/AnnChain/chain/types"
	"github.com/dappledger/AnnChain/eth/common"
	etypes "github.com/dappledger/AnnChain/eth/core/types"
	ecrypto "github.com/dappledger/AnnChain/eth/crypto"
	"github.com/dappledger/AnnChain/eth/rlp"
	glog "github.com/dappledger/AnnChain/gemmill/modules/go-log"
	gtypes "github.com/dappledger/AnnChain/gemmill/types"
)

var once sync.Once

func Quiet() { once.Do(func() { glog.SetLog(zap.NewNop()) }) }

// App is a running EVM application on a data directory.
type App struct {
	*evm.EVMApp
	Dir string
}

// Open creates/opens the application on dir and starts it.
func Open(dir string, blockSize int) (*App, error) {
	Quiet()
	c := viper.New()
	c.Set("db_dir", dir)
	if blockSize == 0 {
		blockSize = 5000
	}
	c.Set("block_size", blockSize)
	a, err := evm.NewEVMApp(c)
	if err != nil {
		return nil, err
	}
	if err := a.Start(); err != nil {
		return nil, err
	}
	return &App{EVMApp: a, Dir: dir}, nil
}

// Close stops the application (closes its databases).
func (a *App) Close() { a.Stop() }

// Key returns a deterministic secp256k1 key for an account label.
func Key(label string) *ecdsa.PrivateKey {
	h := sha256.Sum256([]byte("evmdrive-key-" + label))
	k, err := ecrypto.ToECDSA(h[:])
	if err != nil {
		panic(err)
	}
	return k
}

func Addr(k *ecdsa.PrivateKey) common.Address { return ecrypto.PubkeyToAddress(k.PublicKey) }

var signer = etypes.HomesteadSigner{}

// SignedTx builds, signs and RLP-encodes a transaction. to == nil creates a contract.
func SignedTx(k *ecdsa.PrivateKey, nonce uint64, to *common.Address, value int64, gas uint64, gasPrice int64, data []byte) []byte {
	var tx *etypes.Transaction
	if to == nil {
		tx = etypes.NewContractCreation(nonce, big.NewInt(value), gas, big.NewInt(gasPrice), data)
	} else {
		tx = etypes.NewTransaction(nonce, *to, big.NewInt(value), gas, big.NewInt(gasPrice), data)
	}
	stx, err := etypes.SignTx(tx, signer, k)
	if err != nil {
		panic(err)
	}
	b, err := rlp.EncodeToBytes(stx)
	if err != nil {
		panic(err)
	}
	return b
}

// KVTx builds a signed key-value transaction.
func KVTx(k *ecdsa.PrivateKey, nonce uint64, key, value []byte) []byte {
	payload, _ := rlp.EncodeToBytes(&ctypes.KV{Key: key, Value: value})
	to := common.HexToAddress("0x00000000000000000000000000000000000000aa")
	return SignedTx(k, nonce, &to, 0, 100000, 0, append(append([]byte{}, ctypes.KVTxType...), payload...))
}

// TxHash is the hash the application files receipts under.
func TxHash(tx []byte) []byte { return gtypes.Tx(tx).Hash() }

// Block builds the block the application sees for a height.
func Block(height int64, txs [][]byte) *gtypes.Block {
	b := &gtypes.Block{
		Header: &gtypes.Header{
			ChainID:        "evmdrive",
			Height:         height,
			Time:           time.Unix(1500000000+height*3, 0).UTC(),
			NumTxs:         int64(len(txs)),
			ValidatorsHash: []byte("evmdrive-validators!"),
		},
		Data:       &gtypes.Data{},
		LastCommit: &gtypes.Commit{},
	}
	if height > 1 {
		var prev [8]byte
		binary.BigEndian.PutUint64(prev[:], uint64(height-1))
		ph := sha256.Sum256(prev[:])
		b.Header.LastBlockID = gtypes.BlockID{Hash: ph[:20]}
	}
	for _, t := range txs {
		b.Data.Txs = append(b.Data.Txs, gtypes.Tx(t))
	}
	b.FillHeader()
	return b
}

// Result of executing and committing one block.
type Result struct {
	Height       int64
	Valid        [][]byte
	Invalid      [][]byte
	InvalidErrs  []string
	AppHash      []byte
	ReceiptsHash []byte
}

// Exec runs OnExecute and OnCommit for a block, exactly as the hook listeners do.
func (a *App) Exec(height int64, txs [][]byte) (*Result, error) {
	blk := Block(height, txs)
	r, err := a.OnExecute(height, 0, blk)
	if err != nil {
		return nil, fmt.Errorf("OnExecute: %v", err)
	}
	er, _ := r.(gtypes.ExecuteResult)
	c, err := a.OnCommit(height, 0, blk)
	if err != nil {
		return nil, fmt.Errorf("OnCommit: %v", err)
	}
	cr, _ := c.(gtypes.CommitResult)
	res := &Result{Height: height, AppHash: cr.AppHash, ReceiptsHash: cr.ReceiptsHash}
	for _, t := range er.ValidTxs {
		res.Valid = append(res.Valid, t)
	}
	for _, t := range er.InvalidTxs {
		res.Invalid = append(res.Invalid, t.Bytes)
		if t.Error != nil {
			res.InvalidErrs = append(res.InvalidErrs, t.Error.Error())
		} else {
			res.InvalidErrs = append(res.InvalidErrs, "")
		}
	}
	return res, nil
}

// Nonce queries an account's nonce through the application's Query interface.
func (a *App) Nonce(addr common.Address) (uint64, error) {
	r := a.Query(append([]byte{ctypes.QueryType_Nonce}, addr.Bytes()...))
	if r.Code != gtypes.CodeType_OK {
		return 0, fmt.Errorf("nonce query: %v %s", r.Code, r.Log)
	}
	var n uint64
	if err := rlp.DecodeBytes(r.Data, &n); err != nil {
		return 0, err
	}
	return n, nil
}

// Receipt queries the stored receipt of a transaction (raw bytes; nil if absent).
func (a *App) Receipt(tx []byte) []byte {
	r := a.Query(append([]byte{ctypes.QueryType_Receipt}, TxHash(tx)...))
	if r.Code != gtypes.CodeType_OK {
		return nil
	}
	return r.Data
}

// KeyValue queries a key of the key-value store.
func (a *App) KeyValue(key []byte) ([]byte, bool) {
	r := a.Query(append([]byte{ctypes.QueryType_Key}, key...))
	if r.Code != gtypes.CodeType_OK {
		return nil, false
	}
	return r.Data, true
}

// Call performs a read-only contract call through the Query interface.
func (a *App) Call(k *ecdsa.PrivateKey, to common.Address, data []byte) ([]byte, gtypes.CodeType) {
	tx := SignedTx(k, 0, &to, 0, 1000000, 0, data)
	r := a.Query(append([]byte{ctypes.QueryType_Contract}, tx...))
	return r.Data, r.Code
}

// ---- a few contracts ---------------------------------------------------------

// Deploy wraps runtime code into init code that returns it.
func Deploy(runtime []byte) []byte {
	n := byte(len(runtime))
	// PUSH1 n DUP1 PUSH1 0x0b PUSH1 0 CODECOPY PUSH1 0 RETURN ; runtime
	init := []byte{0x60, n, 0x80, 0x60, 0x0b, 0x60, 0x00, 0x39, 0x60, 0x00, 0xf3}
	return append(init, runtime...)
}

// CounterRuntime: no calldata -> slot0++ ; any calldata -> return slot0.
var CounterRuntime = []byte{0x36, 0x60, 0x0e, 0x57, 0x60, 0x00, 0x54, 0x60, 0x01, 0x01, 0x60, 0x00, 0x55, 0x00, 0x5b, 0x60, 0x00, 0x54, 0x60, 0x00, 0x52, 0x60, 0x20, 0x60, 0x00, 0xf3}

// LoggerRuntime: LOG1 with topic = calldata word 0, data = 32 bytes of slot0, then slot0++.
var LoggerRuntime = []byte{0x60, 0x00, 0x54, 0x60, 0x00, 0x52, 0x60, 0x00, 0x35, 0x60, 0x20, 0x60, 0x00, 0xa1, 0x60, 0x00, 0x54, 0x60, 0x01, 0x01, 0x60, 0x00, 0x55, 0x00}

// StoreRuntime: sstore(calldata[0:32], calldata[32:64]).
var StoreRuntime = []byte{0x60, 0x20, 0x35, 0x60, 0x00, 0x35, 0x55, 0x00}

// SuicideRuntime: selfdestruct to caller.
var SuicideRuntime = []byte{0x33, 0xff}

// EnvRuntime: writes the block environment into storage: slot k = BLOCKHASH(NUMBER-k) for k = 1..4,
// slots 0x10.. = NUMBER, TIMESTAMP, COINBASE, DIFFICULTY, GASLIMIT. Whatever of it is not a function
// of the chain shows in the state root.
var EnvRuntime = []byte{
	0x60, 0x01, 0x43, 0x03, 0x40, 0x60, 0x01, 0x55,
	0x60, 0x02, 0x43, 0x03, 0x40, 0x60, 0x02, 0x55,
	0x60, 0x03, 0x43, 0x03, 0x40, 0x60, 0x03, 0x55,
	0x60, 0x04, 0x43, 0x03, 0x40, 0x60, 0x04, 0x55,
	0x43, 0x60, 0x10, 0x55, 0x42, 0x60, 0x11, 0x55, 0x41, 0x60, 0x12, 0x55, 0x44, 0x60, 0x13, 0x55, 0x45, 0x60, 0x14, 0x55, 0x00}

// RevertRuntime: sstore(0,1) then revert.
var RevertRuntime = []byte{0x60, 0x01, 0x60, 0x00, 0x55, 0x60, 0x00, 0x60, 0x00, 0xfd}

// ContractAddr is the address a creation by `from` with `nonce` gets.
func ContractAddr(from common.Address, nonce uint64) common.Address {
	return ecrypto.CreateAddress(from, nonce)
}

// ProbeRuntime computes a fixed set of arithmetic / bit operations on constants and stores every
// result in its own storage slot (0x20..): whatever process-wide state of the VM (constants, pooled
// integers, caches) an earlier execution of the process damaged shows in the state root.
var ProbeRuntime = buildProbe()

func buildProbe() []byte {
	type t struct {
		args []byte // pushed in this order (last pushed = top of stack = first operand)
		op   byte
	}
	tests := []t{
		{[]byte{7, 5, 4}, 0x09},    // MULMOD(4,5,7)
		{[]byte{7, 5, 4}, 0x08},    // ADDMOD(4,5,7)
		{[]byte{0, 5, 4}, 0x09},    // MULMOD(4,5,0) = 0
		{[]byte{0, 5, 4}, 0x08},    // ADDMOD(4,5,0) = 0
		{[]byte{5, 3}, 0x0a},       // EXP(3,5)
		{[]byte{3, 200}, 0x04},     // DIV(200,3)
		{[]byte{0, 200}, 0x04},     // DIV(200,0)
		{[]byte{3, 200}, 0x05},     // SDIV
		{[]byte{7, 200}, 0x06},     // MOD
		{[]byte{0, 200}, 0x06},     // MOD by 0
		{[]byte{7, 200}, 0x07},     // SMOD
		{[]byte{0x80, 0}, 0x0b},    // SIGNEXTEND(0, 0x80)
		{[]byte{0xff, 31}, 0x1a},   // BYTE(31, 0xff)
		{[]byte{1, 255}, 0x1b},     // SHL(255, 1)
		{[]byte{0x80, 4}, 0x1c},    // SHR(4, 0x80)
		{[]byte{0x80, 4}, 0x1d},    // SAR(4, 0x80)
		{[]byte{9, 9}, 0x14},       // EQ
		{[]byte{9, 8}, 0x10},       // LT(8,9)
		{[]byte{9, 8}, 0x12},       // SLT
		{[]byte{0}, 0x15},          // ISZERO(0)
		{[]byte{0}, 0x19},          // NOT(0)
		{[]byte{200, 100}, 0x03},   // SUB(100,200) wraps
		{[]byte{0x0f, 0xf0}, 0x18}, // XOR
	}
	var rt []byte
	for i, x := range tests {
		for _, a := range x.args {
			rt = append(rt, 0x60, a)
		}
		rt = append(rt, x.op, 0x60, byte(0x20+i), 0x55)
	}
	if len(rt) > 250 {
		panic("probe runtime too long for Deploy")
	}
	return append(rt, 0x00)
}

// FuzzRuntime returns a short random byte string used as contract code: invalid opcodes, stack
// underflows, jumps into nowhere and PUSHn whose data runs past the end of the code included.
func FuzzRuntime(next func(n int) int) []byte {
	n := 1 + next(24)
	rt := make([]byte, n)
	for i := range rt {
		rt[i] = byte(next(256))
	}
	switch next(4) {
	case 0: // nothing but a few pushes, the last one with its data running past the end of the code
		rt = rt[:0]
		for i := next(3); i > 0; i-- {
			rt = append(rt, 0x60, byte(next(256)))
		}
		w := []int{0, 0, 0, 1, 31, next(32)}[next(6)] // PUSH(w+1) followed by fewer than w+1 bytes
		rt = append(rt, byte(0x60+w))
		for i := next(w + 1); i > 0; i-- {
			rt = append(rt, byte(next(256)))
		}
	case 1: // a few well-formed pushes first, so that later opcodes find operands
		pre := []byte{0x60, byte(next(256)), 0x60, byte(next(256)), 0x60, byte(next(256))}
		rt = append(pre, rt...)
	}
	return rt
}
